"""Entry point: ./check <ID> [--tier quick|thorough] [--seed N] [--replay PATH]

Parent process: spawns shard children (subprocess, never multiprocessing),
merges their results, applies the known-findings file, writes the evidence
file and prints the verdict (exit 0 held / 1 violation / 2 inconclusive).
Child process (--child k n): attaches probes and monitors, runs the check
module's cases() through its oracle().
"""
import argparse
import importlib
import json
import os
import shutil
import subprocess
import sys
import time
import traceback

from pmon import core, monitors, known

TIERS = {
    # tier: (shards, per-shard workload budget in seconds (cap), child timeout)
    'quick': (3, 100.0, 600),
    'thorough': (14, 420.0, 2400),
}
# the last shard(s) of every run use an interpreter started with PYTHONOPTIMIZE=1 (assert statements
# compiled away): the interpreter's mode is not an input of any property
OPTIMIZED_SHARDS = {'quick': 1, 'thorough': 2}


def load_check(cid):
    return importlib.import_module(f'pmon.checks.{cid}')


def parse_args(argv):
    ap = argparse.ArgumentParser()
    ap.add_argument('id')
    ap.add_argument('--tier', default=os.environ.get('VERIF_TIER') or 'quick',
                    choices=['quick', 'thorough'])
    ap.add_argument('--seed', type=int, default=None)
    ap.add_argument('--replay', default=None)
    ap.add_argument('--child', nargs=2, type=int, default=None, metavar=('K', 'N'))
    ap.add_argument('--shards', type=int, default=None)
    ap.add_argument('--budget', type=float, default=None)
    ap.add_argument('--no-evidence', action='store_true')
    a = ap.parse_args(argv)
    if a.seed is None:
        try:
            a.seed = int(os.environ.get('VERIF_SEED', '0') or 0)
        except ValueError:
            a.seed = 0
    return a


# --------------------------------------------------------------------- child

def check_tree_under_test():
    import penman
    if not penman.__file__.startswith(core.REPO + '/'):
        raise RuntimeError(f'penman imported from {penman.__file__}, not {core.REPO}')


def child_main(a):
    k, n = a.child
    mod = load_check(a.id)
    shards, budget, timeout = TIERS[a.tier]
    budget = a.budget or getattr(mod, 'BUDGET', {}).get(a.tier, budget)
    ctx = core.Ctx(a.id, a.tier, a.seed, k, n, budget_s=budget)
    outdir = os.path.join(core.OUT, a.id, a.tier)
    os.makedirs(outdir, exist_ok=True)
    monitors.watchdog(timeout - 20)
    import logging
    logging.disable(logging.CRITICAL)
    try:
        check_tree_under_test()
        monitors.coverage_on()
        monitors.audit_on()
        from pmon import probe
        probe.attach(ctx, getattr(mod, 'PROBES', 'default'))
        run_cases(mod, ctx)
        ctx.notes['probe_evals'] = dict(probe.evaluations)
        if not __debug__:
            ctx.count('cases_under_PYTHONOPTIMIZE', ctx.evaluations)
        from pmon.gen import models as _models
        if _models.AMR_SOURCE[0] != 'not loaded':
            ctx.notes['amr_reference_inventory_from'] = _models.AMR_SOURCE[0]
    except Exception:
        ctx.inconclusive_because('harness-crash: ' + traceback.format_exc()[-1500:])
    res = ctx.result()
    res['anchors'] = monitors.coverage_report(getattr(mod, 'ANCHORS', []))
    res['lines_hit'] = {os.path.relpath(f, core.REPO): sorted(v) for f, v in monitors.lines_hit.items()}
    with open(os.path.join(outdir, f'shard-{k}.json'), 'w') as fh:
        core.jdump(res, fh)
    core.write_digests(os.path.join(outdir, f'shard-{k}.digests'), ctx.seen)
    monitors.watchdog_off()
    return 0


def run_cases(mod, ctx):
    for kind, payload in mod.cases(ctx):
        ctx.current = [kind, payload]
        try:
            mod.oracle(ctx, kind, payload)
        except monitors.StepBudget as e:
            ctx.fail(f'{kind}:step-budget', detail=str(e))
        except Exception as e:
            tb = traceback.format_exc()
            ctx.fail(f'{kind}:oracle-crash', detail=tb[-1200:],
                     mech=type(e).__name__ + ':' + _where(e))
    ctx.current = None
    law = getattr(mod, 'PYTEST_LAW', None)
    if law and ctx.shard == 0:
        # extra workload: the repository's own tests with the always-on laws attached
        from pmon.checks import _pytest
        ctx.current = ['pytest', {}]
        try:
            _pytest.run(ctx, law)
        except Exception as e:
            ctx.count('pytest_plugin_failed')
        ctx.current = None


def _where(e):
    tb = traceback.extract_tb(e.__traceback__)
    for fr in reversed(tb):
        if fr.filename.startswith(core.REPO + '/'):
            return f'{os.path.basename(fr.filename)}:{fr.name}'
    fr = tb[-1]
    return f'{os.path.basename(fr.filename)}:{fr.name}'


# --------------------------------------------------------------------- replay

def replay_main(a):
    with open(a.replay) as fh:
        v = json.load(fh)
    cid = v.get('check') or a.id
    mod = load_check(cid)
    ctx = core.Ctx(cid, v.get('tier', 'quick'), v.get('seed', 0), v.get('shard', 0), 1,
                   budget_s=600, replay=True)
    check_tree_under_test()
    import logging
    logging.disable(logging.CRITICAL)
    monitors.coverage_on()
    monitors.audit_on()
    from pmon import probe
    probe.attach(ctx, getattr(mod, 'PROBES', 'default'))
    kind, payload = v['case']
    ctx.current = [kind, payload]
    try:
        if kind == 'pytest':
            from pmon.checks import _pytest
            _pytest.run(ctx, getattr(mod, 'PYTEST_LAW', v.get('property')))
        else:
            mod.oracle(ctx, kind, payload)
    except monitors.StepBudget as e:
        ctx.fail(f'{kind}:step-budget', detail=str(e))
    except Exception as e:
        ctx.fail(f'{kind}:oracle-crash', detail=traceback.format_exc()[-1200:],
                 mech=type(e).__name__ + ':' + _where(e))
    kf = known.load()
    bad = 0
    for w in ctx.violations:
        m = known.match(kf, w)
        if m:
            print(f"KNOWN-FINDING: property={w['property']} {m['id']} {m['mechanism']}")
        else:
            bad += 1
            print(f"VIOLATION property={w['property']} replay={a.replay}")
            print('  clause:', w['clause'], '| detail:', str(w['detail'])[:600])
    if not ctx.violations:
        print(f'replay: no violation reproduced for {a.replay}')
    return 1 if bad else 0


# --------------------------------------------------------------------- parent

def parent_main(a):
    t0 = time.time()
    try:
        mod = load_check(a.id)
    except ModuleNotFoundError:
        print(f'INCONCLUSIVE property={a.id} reason=no-such-check')
        return 2
    shards, budget, timeout = TIERS[a.tier]
    shards = a.shards or getattr(mod, 'SHARDS', {}).get(a.tier, shards)
    outdir = os.path.join(core.OUT, a.id, a.tier)
    shutil.rmtree(outdir, ignore_errors=True)
    os.makedirs(outdir, exist_ok=True)
    evpath = os.path.join(core.EVIDENCE, f'{a.id}.json')
    os.makedirs(core.EVIDENCE, exist_ok=True)

    env = dict(os.environ)
    env['PYTHONHASHSEED'] = '0'
    env['PYTHONDONTWRITEBYTECODE'] = '1'
    procs = []
    for k in range(shards):
        cmd = [sys.executable, '-B', '-m', 'pmon.run', a.id, '--tier', a.tier,
               '--seed', str(a.seed), '--child', str(k), str(shards)]
        if a.budget:
            cmd += ['--budget', str(a.budget)]
        log = open(os.path.join(outdir, f'shard-{k}.log'), 'w')
        cenv = env
        if shards >= 3 and k >= shards - OPTIMIZED_SHARDS.get(a.tier, 0):
            cenv = dict(env, PYTHONOPTIMIZE='1', PYTHONINTMAXSTRDIGITS='0')   # ... and without the int<->str digit limit
        procs.append((k, subprocess.Popen(cmd, stdout=log, stderr=subprocess.STDOUT, env=cenv,
                                          cwd=core.ROOT), log))
    inconclusive = []
    deadline = t0 + timeout
    for k, p, log in procs:
        try:
            rc = p.wait(timeout=max(1.0, deadline - time.time()))
        except subprocess.TimeoutExpired:
            p.kill()
            p.wait()
            rc = None
            inconclusive.append(f'shard {k} exceeded the wall-clock watchdog ({timeout}s)')
        log.close()
        if rc not in (0, None):
            inconclusive.append(f'shard {k} exited with status {rc} (see out/{a.id}/{a.tier}/shard-{k}.log)')

    results = []
    for k in range(shards):
        try:
            with open(os.path.join(outdir, f'shard-{k}.json')) as fh:
                results.append(json.load(fh))
        except (FileNotFoundError, json.JSONDecodeError):
            inconclusive.append(f'shard {k} left no result')
    merged = merge(a, mod, results, outdir, shards)
    inconclusive.extend(merged['inconclusive'])

    # ---- decide
    kf = known.load()
    new_violations, known_lines = [], []
    rdir = os.path.join(core.OUT, 'replays')
    os.makedirs(rdir, exist_ok=True)
    seen_keys = set()
    foreign = []
    for v in merged['violations']:
        key = (v['property'], v['clause'], v['mech'])
        if key in seen_keys:
            continue
        seen_keys.add(key)
        if v['property'] != a.id:
            # an always-on law of ANOTHER property fired under this workload: it is
            # reported (and kept as a replay file) but it does not decide THIS property
            h = '%016x' % core.digest((key, v['case']))
            path = os.path.join(rdir, f"{v['property']}-seen-by-{a.id}-{h}.json")
            with open(path, 'w') as fh:
                core.jdump(v, fh, indent=1)
            foreign.append((v, path))
            continue
        m = known.match(kf, v)
        if m:
            line = f"KNOWN-FINDING: property={v['property']} {m['id']} {m['mechanism']}"
            if line not in known_lines:
                known_lines.append(line)
            continue
        h = '%016x' % core.digest((key, v['case']))
        path = os.path.join(rdir, f"{v['property']}-{h}.json")
        with open(path, 'w') as fh:
            core.jdump(v, fh, indent=1)
        new_violations.append((v, path))

    # minimum work / deciding monitors reached
    min_eval = getattr(mod, 'MIN_EVAL', {}).get(a.tier, 20)
    if merged['evaluations'] < min_eval and not new_violations:
        inconclusive.append(f"only {merged['evaluations']} evaluations (< {min_eval})")
    for name in getattr(mod, 'REQUIRED_COUNTERS', []):
        if merged['counters'].get(name, 0) == 0 and not new_violations:
            inconclusive.append(f'deciding monitor/counter {name!r} never reached')
    if merged['distinct_nontrivial'] < 2 and not new_violations:
        inconclusive.append('fewer than 2 distinct non-trivial cases')

    wall = round(time.time() - t0, 2)
    if not a.no_evidence:
        merged['foreign'] = [f"{v['property']}:{v['clause']}" for v, _ in foreign]
        write_evidence(evpath, a, mod, merged, wall, len(new_violations), known_lines, inconclusive)

    for line in known_lines:
        print(line)
    for v, path in foreign[:10]:
        print(f"ALSO-OBSERVED: law of property={v['property']} fired under the {a.id} workload "
              f"(does not decide {a.id}) clause={v['clause']} replay={path}")
    summary = (f"{a.id} tier={a.tier} seed={a.seed} shards={shards} evaluations={merged['evaluations']} "
               f"distinct_nontrivial={merged['distinct_nontrivial']} wall={wall}s")
    if new_violations:
        for v, path in new_violations:
            print(f"VIOLATION property={v['property']} replay={path}")
            print(f"  clause={v['clause']} mech={v['mech']} detail={str(v['detail'])[:500]!r}")
        print('FAILED', summary)
        return 1
    if inconclusive:
        for r in inconclusive:
            print(f'INCONCLUSIVE property={a.id} reason={r[:600]}')
        print('INCONCLUSIVE', summary)
        return 2
    print('HELD', summary)
    return 0


def merge(a, mod, results, outdir, shards):
    m = {
        'evaluations': 0, 'enumerated': 0, 'enumerated_nontrivial': 0, 'trivial': 0,
        'samples': [], 'counters': {}, 'violations': [], 'suppressed': 0,
        'inconclusive': [], 'anchors': {}, 'notes': {}, 'exhaustive': {},
        'max_step_ratio': 0.0, 'audit_seen': 0, 'probe_evals': {},
    }
    digests = set()
    for r in results:
        m['evaluations'] += r['evaluations']
        m['enumerated'] += r['enumerated']
        m['enumerated_nontrivial'] += r['enumerated_nontrivial']
        m['trivial'] += r['trivial']
        for s in r['samples']:
            if len(m['samples']) < 8:
                m['samples'].append(s)
        for k, v in r['counters'].items():
            if k.startswith('max_'):
                m['counters'][k] = max(m['counters'].get(k, 0), v)
            else:
                m['counters'][k] = m['counters'].get(k, 0) + v
        m['violations'].extend(r['violations'])
        m['suppressed'] += r['suppressed']
        for x in r['inconclusive']:
            m['inconclusive'].append(f"shard {r['shard']}: {x}")
        for an, info in r.get('anchors', {}).items():
            cur = m['anchors'].get(an)
            if cur is None:
                m['anchors'][an] = dict(info)
            else:
                cur['calls'] = cur.get('calls', 0) + info.get('calls', 0)
                if 'lines_hit' in info:
                    cur['lines_hit'] = max(cur.get('lines_hit', 0), info['lines_hit'])
                    cur['lines'] = info['lines']
                    cur.pop('status', None)
        for k, v in r.get('exhaustive', {}).items():
            m['exhaustive'][k] = m['exhaustive'].get(k, 0) + v
        for k, v in (r.get('notes', {}).get('probe_evals') or {}).items():
            m['probe_evals'][k] = m['probe_evals'].get(k, 0) + v
        for k, v in r.get('notes', {}).items():
            if k != 'probe_evals':
                m['notes'].setdefault(k, v)
        m['max_step_ratio'] = max(m['max_step_ratio'], r.get('max_step_ratio', 0.0))
        m['audit_seen'] += r.get('audit_seen', 0)
        digests.update(core.read_digests(os.path.join(outdir, f"shard-{r['shard']}.digests")))
    m['distinct_nontrivial'] = m['enumerated_nontrivial'] + len(digests)
    return m


def write_evidence(path, a, mod, m, wall, nviol, known_lines, inconclusive):
    cov = {
        'evaluations': m['evaluations'],
        'distinct_nontrivial': m['distinct_nontrivial'],
        'rule': getattr(mod, 'RULE', ''),
        'samples': m['samples'] or ['<no sample recorded>'],
        'enumerated_distinct_by_construction': m['enumerated'],
        'trivial_cases': m['trivial'],
        'counters': m['counters'],
        'probe_evaluations': m['probe_evals'],
        'anchor_coverage': m['anchors'],
        'max_steps_over_budget_ratio': m['max_step_ratio'],
        'audit_callbacks_inside_pure_calls': m['audit_seen'],
        'known_findings_seen': known_lines,
        'other_properties_laws_fired': m.get('foreign', []),
        'inconclusive_reasons': inconclusive,
        'shards': len([1 for _ in range(1)]) and None,
        'notes': m['notes'],
    }
    cov.pop('shards')
    if m['exhaustive']:
        cov['exhaustive_subspaces'] = m['exhaustive']
        cov['exhaustive'] = False   # the whole input space is never exhausted; sub-spaces listed above are
    ev = {
        'property_id': a.id,
        'tier': a.tier,
        'seed': a.seed,
        'level': 'exploration',
        'coverage': cov,
        'assumptions': getattr(mod, 'ASSUMPTIONS', []),
        'wall_s': wall,
        'violations': nviol,
    }
    tmp = path + '.tmp'
    with open(tmp, 'w') as fh:
        core.jdump(ev, fh, indent=1)
    os.replace(tmp, path)


def main(argv=None):
    a = parse_args(argv if argv is not None else sys.argv[1:])
    if a.child is not None:
        return child_main(a)
    if a.replay:
        return replay_main(a)
    return parent_main(a)


if __name__ == '__main__':
    sys.exit(main())
