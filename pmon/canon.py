"""Canonical (hashable, comparable, JSON-able) forms of penman objects (DESIGN 3.5)."""
from penman.graph import Graph
from penman.tree import Tree
from penman.model import Model
from penman.epigraph import Epidatum
from penman import layout, surface


def marker(m):
    if isinstance(m, layout.Push):
        return ('Push', m.variable)
    if isinstance(m, layout.Pop):
        return ('POP',)
    if isinstance(m, surface.AlignmentMarker):
        return (type(m).__name__, m.prefix, tuple(m.indices))
    return ('?', type(m).__name__, repr(m))


def tkey(t):
    """total order on triples with mixed-type targets"""
    return tuple((type(x).__name__, repr(x)) for x in t)


def epidata(epi):
    items = []
    for t, ms in epi.items():
        items.append((tuple(t) if isinstance(t, (tuple, list)) else t, tuple(marker(m) for m in ms)))
    items.sort(key=lambda it: (tkey(it[0]) if isinstance(it[0], tuple) else ((), repr(it[0])), ))
    return tuple(items)


def node(n):
    if isinstance(n, (tuple, list)) and len(n) == 2 and isinstance(n[1], list):
        var, branches = n
        return (var, tuple((r, node(t)) for r, t in branches))
    return n


def canon(o):
    """Deep canonical snapshot; exact for types (1 vs 1.0 vs '1' differ)."""
    if isinstance(o, Graph):
        return ('Graph', getattr(o, '_top', None), o.top,
                tuple(typed(t) for t in o.triples), epidata_typed(o.epidata),
                tuple((k, v) for k, v in o.metadata.items()))
    if isinstance(o, Tree):
        return ('Tree', typed(node(o.node)), tuple((k, v) for k, v in o.metadata.items()))
    if isinstance(o, Model):
        return ('Model', type(o).__name__, o.top_variable, o.top_role, o.concept_role,
                tuple(o.roles), tuple(sorted(o.normalizations.items())),
                tuple(sorted((k, tuple(v)) for k, v in o.reifications.items())))
    if isinstance(o, Epidatum):
        return marker(o)
    if isinstance(o, dict):
        return ('dict', tuple((canon(k), canon(v)) for k, v in o.items()))
    if isinstance(o, (list, tuple)):
        return (type(o).__name__, tuple(canon(x) for x in o))
    if isinstance(o, (set, frozenset)):
        return ('set', tuple(sorted((canon(x) for x in o), key=repr)))
    if isinstance(o, (str, int, float, bool)) or o is None:
        return typed(o)
    return ('obj', type(o).__name__, id(o))


def typed(x):
    if isinstance(x, tuple):
        return tuple(typed(y) for y in x)
    if isinstance(x, list):
        return ('list',) + tuple(typed(y) for y in x)
    if isinstance(x, float):
        return ('float', repr(x))
    if isinstance(x, bool):
        return ('bool', x)
    if isinstance(x, int):
        return ('int', x)
    return x


def epidata_typed(epi):
    items = [(typed(tuple(t)) if isinstance(t, (tuple, list)) else t,
              tuple(marker(m) for m in ms)) for t, ms in epi.items()]
    items.sort(key=repr)
    return tuple(items)


def graph_sig(g):
    """(top, triples, markers, metadata) for container/determinism comparisons:
    triples ordered, epidata unordered, metadata ordered."""
    return (g.top, tuple(typed(t) for t in g.triples), epidata_typed(g.epidata),
            tuple(g.metadata.items()))


def tree_sig(t):
    return (typed(node(t.node)), tuple(t.metadata.items()))
