"""String / token-sequence workloads for C07, C08 (and the corpora other
checks reuse)."""
import itertools

# 26-character alphabet of DESIGN C07
ALPHA26 = ['(', ')', '/', ':', '~', '"', '\\', '#', ',', '^', '.', '-', ' ', '\n', 'a', 'e',
           'E', '1', '\t', '\x0b', '\x0c', '\r', '\u00a0', '\u2028', '\u0085', '\u3000']
# 14-character sub-alphabet for the longer exhaustive bound
ALPHA14 = ['(', ')', '/', ':', '~', '"', '\\', '#', ',', '^', ' ', '\n', 'a', '1']
# 10-character core
ALPHA10 = ['(', ')', '/', ':', '~', '"', ' ', 'a', '1', '\n']

TOKENS22 = ['(', ')', '/', ':R', ':', 'a', 'b', '~1', '"s"', '#c\n', ' ', '\n', '^', ',', 'r',
            'a,', ',b', 'a,b', '^r', '"', '~e.', ':R~2']
TOKENS_EXTRA = ['~E.3', ':R-of', '"a b"', '"\\""', '\r', '\x0c', '\u00a0', '# ::k v', '1,2',
                '~e.1,2', '\\', 'a~1', ':~1', '(a', 'b)', '/c', '\u2028']


def nth_product(alphabet, length, index):
    """index-th element of itertools.product(alphabet, repeat=length)"""
    n = len(alphabet)
    out = []
    for _ in range(length):
        index, r = divmod(index, n)
        out.append(alphabet[r])
    return ''.join(reversed(out))


def batch(alphabet, length, start, count, sep=''):
    """strings start..start+count-1 of the product enumeration"""
    total = len(alphabet) ** length
    end = min(total, start + count)
    # iterate efficiently from *start*
    n = len(alphabet)
    idx = [0] * length
    x = start
    for p in range(length - 1, -1, -1):
        x, idx[p] = divmod(x, n)
    for _ in range(start, end):
        yield sep.join(alphabet[i] for i in idx)
        p = length - 1
        while p >= 0:
            idx[p] += 1
            if idx[p] < n:
                break
            idx[p] = 0
            p -= 1


def nested(depth, rng=None, broken=None):
    """A text nested *depth* levels deep; broken in {None,'trunc','extra','slash'}."""
    parts = []
    for i in range(depth - 1):
        role = ':ARG%d' % (i % 3) if rng is None else rng.choice([':ARG0', ':R-of', ':', ':op1~e.3'])
        parts.append('(a%d / A%d %s ' % (i, i, role))
    s = ''.join(parts) + '(z / Z)' + ')' * (depth - 1)
    if broken == 'trunc':
        s = s[:-1]
    elif broken == 'extra':
        s = s + ')'
    elif broken == 'slash':
        s = s.replace('/ Z', '/ / Z')
    elif broken == 'mid' and rng is not None:
        k = rng.randrange(len(s))
        s = s[:k] + rng.choice(['"', ')', '(', '~', '/', ':']) + s[k + 1:]
    return s


UNI = ['\u00a0', '\u2028', '\u2029', '\u0085', '\u3000', '\x1c', '\x1d', '\x1e', '\x0b', '\x0c',
       '\u00e9', '\u4e2d', '\U0001f600', '\u200b', '\ufeff', '\x00', '\x7f', '\ud800',
       '\u017f', '\u212a', '\u0130', '\u0131', '\u043a', '\uff41', '\uff11', '\u0661', '\u00b2', '\u00df',
       'e\u0301', '\u212b', 'o\u031b\u0309', '\u1112\u1161\u11ab', '\ufb01']
# (the last five are not in Unicode normal form C/KC: combining sequences, the Angstrom sign, conjoining jamo,
#  the fi ligature - text is never normalised on the way in or out)
# letters/digits that case-fold or digit-classify surprisingly (long s, Kelvin sign, dotted/dotless i,
# Cyrillic ka, full-width a and 1, Arabic-Indic 1, superscript 2, sharp s)
ODD_LETTERS = ['\u017f', '\u212a', '\u0130', '\u0131', '\u043a', '\uff41', '\u00e9', '\u00df', 'e', 'E', 'Z']
ODD_DIGITS = ['\uff11', '\u0661', '\u00b2', '1', '0', '23']


def alignment_like(rng):
    """text shaped like an alignment but with unusual prefix letters / digits"""
    s = '~' + rng.choice(ODD_LETTERS + ['', '']) + rng.choice(['.', '', '..'])
    s += rng.choice(ODD_DIGITS) + rng.choice(['', ',2', ',', ',\uff11', '.3'])
    return s


def random_text(rng, maxlen=60):
    """random string biased to delimiters, quotes, comments and unicode blanks"""
    pool = ALPHA26 * 3 + UNI + list('abcxyz019') + [':ARG0', ':op1', '-of', '::', '# ', '"a"', '~e.1']
    n = rng.randrange(0, maxlen)
    return ''.join(alignment_like(rng) if rng.random() < 0.04 else rng.choice(pool) for _ in range(n))


def corrupt_text(rng, s):
    """truncate / one-character corruption / duplication of a valid text"""
    if not s:
        return s
    k = rng.randrange(0, 5)
    i = rng.randrange(len(s))
    if k == 0:
        return s[:i]
    if k == 1:
        return s[:i] + rng.choice(ALPHA26 + UNI) + s[i + 1:]
    if k == 2:
        return s[:i] + rng.choice(ALPHA26 + UNI) + s[i:]
    if k == 3:
        return s[:i] + s[i + 1:]
    j = rng.randrange(len(s))
    a, b = min(i, j), max(i, j)
    return s[:a] + s[b:]


META_BITS = ['::id 1', '::snt a b', '::k', '::k  v', ':: v', '::', '::a::b', ':::c', '::date 2012-12-23',
             '::x\ty', '::tok ( ) / : ~ "', '::u \u2028z', '::e \xa0', '::alignments 0-1 1-2', 'plain', '::nfd cafe\u0301 \u212b', '::annotator None', '::n 0', '::path C:\\new\\table.txt', '::re \\d+\\n',
             ';; note', '::k: v:', '::url http://x/y::z']
META_GAPS = [' ', '  ', '   ', '\t', ' \t ', '']


def comment_line(rng):
    """a comment line with 0-4 '::key value' groups separated by irregular blanks
    (multi-key metadata lines, documented in docs/notation.rst)"""
    n = rng.randrange(0, 5)
    parts = [rng.choice(META_BITS) for _ in range(n)]
    line = '#' + rng.choice(['', ' ', '  '])
    for i, p in enumerate(parts):
        line += (rng.choice(META_GAPS) if i else '') + p
    return line + rng.choice(['', ' ', '  \t'])


def insert_at_token_boundary(rng, s, k=1):
    """a text with k lexically significant characters inserted exactly at a token start (3/4) or
    end (1/4), located with the reference lexer: '#' there starts a comment that runs to the end
    of the line whatever the line looks like, '"' opens a string that swallows the rest, ..."""
    from pmon.ref import lexer as RL
    lines = RL.split_lines(s)
    for _ in range(k):
        li = rng.randrange(len(lines))
        toks = RL.lex_line(lines[li], li + 1, False)
        if not toks:
            continue
        tk = rng.choice(toks)
        at = tk[3] + (0 if rng.random() < 0.75 else len(tk[1]))
        ch = rng.choice(['#', '#', '#', '"', '~', ':', '/', '(', ')', '\\', '^', ','])
        lines[li] = lines[li][:at] + ch + lines[li][at:]
    return '\n'.join(lines)


# ---------------------------------------------------------------- characters nobody thought of
NAME_EXCLUDED = set(' \t\n\r\x0b\x0c()/:~"')


def rand_char(rng, allow=()):
    """a code point drawn from all of Unicode (ASCII 55%, Latin 15%, rest of the BMP 25%, astral 5%)
    that may occur in a name: not one of the six ASCII blanks, not ( ) / : ~ ", no surrogate"""
    while True:
        x = rng.random()
        if x < .55:
            cp = rng.randrange(0x21, 0x7f)
        elif x < .7:
            cp = rng.randrange(0xa0, 0x250)
        elif x < .95:
            cp = rng.randrange(0x250, 0xfffe)
        else:
            cp = rng.randrange(0x10000, 0x1fa00)
        if 0xd800 <= cp <= 0xdfff:
            continue
        ch = chr(cp)
        if ch in NAME_EXCLUDED and ch not in allow:
            continue
        return ch


def rand_symbol(rng, maxlen=4):
    """a grammar-valid symbol (NameChar+) over all of Unicode; never starts a comment"""
    while True:
        sym = ''.join(rand_char(rng) for _ in range(rng.randrange(1, maxlen + 1)))
        if not sym.startswith('#'):
            return sym


def rand_role(rng):
    """':' + name characters; never ends in -of (that would make it an inverted role)"""
    while True:
        r = ':' + ''.join(rand_char(rng) for _ in range(rng.randrange(1, 4)))
        if r[1] != '#':      # (in the triple-conjunction notation a role name that starts with # would open a comment)
            return r + 'x' if r.endswith('-of') else r


def rand_value(rng, maxlen=10):
    """a metadata value: any characters but line ends, no '::', no leading/trailing blank"""
    while True:
        v = ''.join(rand_char(rng, allow=' \t()/:~"') for _ in range(rng.randrange(1, maxlen + 1)))
        v = v.strip(' \t\x0b\x0c')
        if v and '::' not in v and v == v.strip():
            return v
