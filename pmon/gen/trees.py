"""Seeded tree generators (DESIGN 3.3 WF-T and the ill-formed extensions)."""
from pmon.ref.model import RefModel

ROLES_PLAIN = [':ARG0', ':ARG1', ':ARG2', ':mod', ':domain', ':op1', ':op2', ':op10',
               ':polarity', ':quant', ':name', ':', ':x-y', ':consist-of',
               ':prep-on-behalf-of', ':time', ':location', ':poss', ':\u00e9t\u00e9', ':r0', ':k',
               # bases whose inversion (':consist-of', ':x-of', ':u-of' ...) some models define as a
               # role of its own: usable only under the models that do not (R-base)
               ':consist', ':prep-on-behalf', ':x', ':u',
               # roles ending in -of that some tables define, literally or by a pattern
               ':x-of', ':u-of', ':w-of', ':y-z-of', ':prep-out-of', ':w', ':op1-x-of', ':prep-on-top-of', ':r0-z', ':r',
               # suffixes that only look like the inversion suffix (another letter case): ordinary roles
               ':ARG0-OF', ':x-Of', ':mod-oF',
               # '-of' (even '-of-of') inside a word is not an inversion
               ':out-of-office', ':type-of-offer', ':part-of-speech']
SYMS = ['-', '+', 'foo', 'bar', '7', '-1.5', '0', '0.0', '1e3', 'x', 'imperative', 'A',
        'b2', '\u03b5\u03c0', 'a.b', 'c,d', '^', "it's", '\u00a0', 'x\u2028y', '00', 'x\u3000y',
        '\u0085', 'p#q', 'mi\ufeffkh', 'z\u200bw', 'cafe\u0301', '\u212bngstr', '\u201cso\u201d', '\u201c1\u201d',
        '\u2018x\u2019', '\u00abq\u00bb', 'None', 'null', ';', ';x', '--v', '%c', '!', '@x', '$1', '&', '*', '=', '<a>', '?', '[k]', '`t`', '{}', '|']
STRS = ['"x"', '"a b"', '"(p)"', '"a~b"', '"q/:r"', '"\\"q\\""', '"#h"', '""', '"\\\\"',
        '"~1"', '"a\\nb"', '"\u00e9\u3000"', '"a ~e.1"', '"\u2028"', '"\tq\x0b"', '"a\ufeffb"', '"o\u031b\u0309 \u212a"', '"x::y z"', '"k ::id 7"']
CONCEPTS = ['alpha', 'beta', 'bark-01', 'i', 'a', 'b', 'have-mod-91', '"str"', '7', 'A',
            '\u03b5', '"~x"', '-', 'x1', '_', 'e\u0301t\u00e9', '\u201cquoted\u201d', 'None']
VARPOOL = ['a', 'b', 'c', 'd', 'e', 'f', 'g', 'h', 'i', 'x1', 'x2', '_', '_2', 'i2', 'a2',
           'v\u00e9', 'n0', 'zz', '10', '2.5', '-1', '_3', '_5']
# ('10', '2.5', '-1' are legal variables - Variable <- Symbol - that look like numbers;
#  '_3', '_5' leave gaps in the numbering of generated '_N' variables)

DEFAULT = RefModel(name='default')


def mk_aln(rng, zero_pad=False):
    pre = rng.choice(['', '', 'e.', 'e', 'x.', 'E.', 'Z'])
    idx = [str(rng.randrange(0, 30)) for _ in range(rng.choice([1, 1, 1, 2, 3]))]
    if zero_pad:
        idx = ['0' + x for x in idx]
    return '~' + pre + ','.join(idx)


def own_literal_roles(rm):
    """the literal (metacharacter-free) entries of the model's own role inventory"""
    return [r for r in getattr(rm, 'roles', ()) if not any(c in r for c in '[]()|+*?\\.^$')]


def usable_bases(rm, pool=ROLES_PLAIN, own=True):
    """R-base: base b is usable iff b is defined, or b does not end in -of and
    b+'-of' is not defined.  For a model with a sizeable inventory of its own (AMR) a third of
    the result is drawn from that inventory, so that every table entry gets exercised."""
    out = []
    lits = own_literal_roles(rm) if own else []
    if len(lits) > 20:
        base = list(pool)
        extra = [r for r in lits if r not in base]
        pool = base * max(1, (2 * len(extra)) // max(1, len(base))) + extra     # ~2/3 pool, ~1/3 inventory
    for b in pool:
        if rm.defines(b):
            # (a table that also defines b's inverse spelling as a role of its own leaves no way to
            #  write an edge with role b from its target's side: R-base collision, O3)
            if not rm.defines(rm.invert_role(b)):
                out.append(b)
        elif not rm.inverted(b) and not rm.defines(rm.invert_role(b)):
            out.append(b)
    return out


def _wide_symbol(rng, varset, exclude=None):
    from pmon.gen import strings as _S
    for _ in range(20):
        sym = _S.rand_symbol(rng)
        if sym.startswith('_') and sym[1:].isdigit() or sym == '_':
            continue      # spelled like the variables that reification generates (O16)
        if sym not in varset and not (exclude and exclude(sym)):
            return sym
    return 'foo'


def rand_tree(rng, rm=None, n_nodes=None, p_reent=0.35, p_const=0.4, p_inv=0.3,
              p_noconcept=0.2, p_aln=0.2, max_branch=4, allow_empty_target=False,
              deep=False, extra_roles=(), no_constants_like=None, inv_attr=True,
              concepts=None, syms=None, roles=None, wide=True):
    """Well-formed tree (WF-T): every variable defined once, denoted triples
    pairwise distinct (as strings), canonical inversion, no inverted self loop.
    *no_constants_like*: predicate on a constant text to exclude (C10 proviso).
    Returns (var, [(role, target), ...]) with nested tuples."""
    rm = rm or DEFAULT
    if n_nodes is None:
        n_nodes = rng.choice([1, 2, 2, 3, 3, 4, 5, 6, 8])
    pool = list(VARPOOL)
    rng.shuffle(pool)
    variables = (pool + ['w%d' % j for j in range(max(0, n_nodes - len(pool)))])[:n_nodes]
    varset = set(variables)
    parent = {}
    order = [variables[0]]
    for v in variables[1:]:
        p = order[-1] if deep and rng.random() < 0.9 else rng.choice(order)
        parent[v] = p
        order.append(v)
    children = {v: [] for v in variables}
    for v in variables[1:]:
        children[parent[v]].append(v)
    denoted = set()
    bases = usable_bases(rm, list(roles), own=False) if roles else usable_bases(rm, ROLES_PLAIN + list(extra_roles))
    if wide and not roles and rng.random() < 0.3:
        # one or two role names over all of Unicode (usable like any undefined base)
        from pmon.gen import strings as _S
        extra_wide = usable_bases(rm, [_S.rand_role(rng) for _ in range(rng.choice([1, 2]))], own=False)
        bases = bases + extra_wide * max(1, len(bases) // 12)
    syms_ = [c for c in (syms or (SYMS + STRS)) if c not in varset]
    if no_constants_like:
        syms_ = [c for c in syms_ if not no_constants_like(c)]
    concepts_ = list(concepts or CONCEPTS)
    if no_constants_like:
        concepts_ = [c for c in concepts_ if not no_constants_like(c)]

    def denote(src, role, tgt, tgt_is_var):
        if tgt_is_var and rm.inverted(role) and not rm.noop:
            return (tgt, rm.invert_role(role), src)
        return (src, role, tgt)

    def pick_role(inv_ok):
        r = rng.choice(bases)
        if inv_ok and rng.random() < p_inv and not rm.inverted(r) and not rm.defines(rm.invert_role(r)):
            r = rm.invert_role(r)
        return r

    def build(v):
        branches = []
        if rng.random() >= p_noconcept:
            c = rng.choice(concepts_)
            if wide and rng.random() < 0.05:
                c = _wide_symbol(rng, varset, no_constants_like)
            if rng.random() < p_aln:
                c += mk_aln(rng)
            branches.append(('/', c))
        elif rng.random() < 0.3:
            branches.append(('/', None))
        items = [('child', c) for c in children[v]]
        k = rng.randrange(0, max_branch)
        for _ in range(k):
            x = rng.random()
            if x < p_reent and len(variables) > 1:
                items.append(('reent', rng.choice(variables)))
            elif x < p_reent + p_const:
                items.append(('const', _wide_symbol(rng, varset, no_constants_like)
                              if wide and rng.random() < 0.08 else rng.choice(syms_)))
            elif allow_empty_target:
                items.append(('none', None))
        rng.shuffle(items)
        for kind, x in items:
            role = None
            for attempt in range(8):
                role = pick_role(inv_attr or kind in ('child', 'reent'))
                if kind in ('child', 'reent'):
                    if kind == 'reent' and x == v and rm.inverted(role) and not rm.noop:
                        continue  # inverted self loop
                    d = denote(v, role, x, True)
                else:
                    d = (v, role, x)
                if d in denoted:
                    continue
                denoted.add(d)
                break
            else:
                if kind == 'child':
                    role = ':u%d' % len(denoted)
                    denoted.add(denote(v, role, x, True))
                else:
                    continue
            ra = mk_aln(rng) if rng.random() < p_aln else ''
            r = role + ra
            if kind == 'child':
                branches.append((r, build(x)))
            elif kind == 'none':
                branches.append((r, None))
            else:
                t = x
                if rng.random() < p_aln:
                    # sometimes the very same alignment as on the role (equal but distinct markers)
                    t += ra if (ra and rng.random() < 0.35) else mk_aln(rng)
                branches.append((r, t))
        return (v, branches)

    return build(variables[0])


def norm_tree(node):
    """(a /) -> (a): drop ('/', None) branches."""
    v, br = node
    out = []
    for r, t in br:
        if r == '/' and t is None:
            continue
        if isinstance(t, tuple):
            t = norm_tree(t)
        out.append((r, t))
    return (v, out)


def to_json(node):
    if isinstance(node, tuple) and len(node) == 2 and isinstance(node[1], list):
        return [node[0], [[r, to_json(t)] for r, t in node[1]]]
    return node


def from_json(j):
    if isinstance(j, list) and len(j) == 2 and isinstance(j[1], list):
        return (j[0], [(r, from_json(t)) for r, t in j[1]])
    return j


def listify(node):
    """the same tree with list nodes (the shape a tree has after a JSON round trip)"""
    if isinstance(node, tuple) and len(node) == 2 and isinstance(node[1], list):
        return [node[0], [(r, listify(t)) for r, t in node[1]]]
    return node


def tuplify(node):
    if isinstance(node, (list, tuple)) and len(node) == 2 and isinstance(node[1], list):
        return (node[0], [(r, tuplify(t)) for r, t in node[1]])
    return node


def nodes(node, acc=None):
    acc = [] if acc is None else acc
    acc.append(node)
    for r, t in node[1]:
        if isinstance(t, tuple):
            nodes(t, acc)
    return acc


def size(node):
    return sum(1 + len(n[1]) for n in nodes(node))


def depth(node):
    d = 1
    for r, t in node[1]:
        if isinstance(t, tuple):
            d = max(d, 1 + depth(t))
    return d


def features(node, rm=None):
    """non-triviality features of a tree"""
    rm = rm or DEFAULT
    ns = nodes(node)
    vs = {n[0] for n in ns}
    f = set()
    for v, br in ns:
        has_c = any(r == '/' and t is not None for r, t in br)
        if not has_c and len(br) > (1 if any(r == '/' for r, _ in br) else 0):
            f.add('conceptless-with-edges')
        for r, t in br:
            base = r.partition('~')[0]
            if '~' in r:
                f.add('role-aln')
            if isinstance(t, str):
                atom = t
                if t.startswith('"'):
                    if t.rfind('"') + 1 < len(t):
                        f.add('target-aln')
                else:
                    atom = t.partition('~')[0]
                    if '~' in t:
                        f.add('target-aln')
                if r != '/' and atom in vs:
                    f.add('reentrancy')
                    if rm.inverted(base):
                        f.add('inverted-reentrancy')
                elif r != '/' and rm.inverted(base):
                    f.add('inverted-attribute')
            elif isinstance(t, tuple):
                if rm.inverted(base):
                    f.add('inverted-edge')
    return f


# ---------------------------------------------------------------- ill-formed trees (C01, C04)

def mangle(rng, node, rm=None, special_inverse=True):
    """Return an ill-formed variant: duplicate definitions, duplicate
    branches, over-inverted roles, ':instance' written as a role, nested empty
    nodes, missing targets."""
    ns = nodes(node)
    vs = [n[0] for n in ns]

    def rec(nd):
        v, br = nd
        out = []
        for r, t in br:
            if isinstance(t, tuple):
                t = rec(t)
            x = rng.random()
            if x < 0.08 and r != '/':
                r = r.partition('~')[0] + '-of' + ('~' + r.partition('~')[2] if '~' in r else '')
            elif x < 0.12 and r != '/':
                r = r.partition('~')[0] + '-of-of'
            out.append((r, t))
            y = rng.random()
            if y < 0.08:
                out.append((r, t))                      # duplicate branch
            elif y < 0.12:
                out.append((':instance' + (mk_aln(rng) if rng.random() < 0.4 else ''),
                            rng.choice(CONCEPTS)))   # written :instance (possibly aligned)
            elif y < 0.16:
                out.append((rng.choice(ROLES_PLAIN), None))       # missing target
            elif y < 0.20:
                out.append((rng.choice(ROLES_PLAIN), (None, [])))  # nested empty node
            elif y < 0.26:
                out.append((rng.choice(ROLES_PLAIN) + rng.choice(['', '-of']),
                            (rng.choice(vs), [('/', rng.choice(CONCEPTS))])))  # duplicate definition
            elif y < 0.30 and special_inverse:
                # the inverse spelling of the concept role or of the top role, to a variable or a node:
                # an inverted role like any other
                out.append((rng.choice([':instance-of', ':instance-of', ':TOP-of']) + (mk_aln(rng) if rng.random() < 0.3 else ''),
                            rng.choice(vs) if rng.random() < 0.6 else ('zz%d' % rng.randrange(9), [('/', 'thing')])))
        if rng.random() < 0.1:
            v = rng.choice(vs)                           # duplicate variable
        return (v, out)

    return rec(node)


def wide_tree(rng, rm, roles, n=None):
    """a node with many (11-16) branches over *roles* - enough reifiable relations to push
    generated variable indices into two digits - mixing constants, nested nodes and
    re-entrancies; well-formed by construction (distinct targets per role)."""
    n = n or rng.randrange(11, 17)
    roles = [r for r in roles if r in usable_bases(rm, roles, own=False)]
    branches = [('/', 'hub')]
    kids = 0
    for i in range(n):
        r = rng.choice(roles)
        x = rng.random()
        if x < 0.5:
            branches.append((r, f'c{i}'))
        elif x < 0.85:
            kids += 1
            sub = [('/', f'k{i}')]
            if rng.random() < 0.4:
                sub.append((rng.choice(roles), f'd{i}'))
            if rng.random() < 0.3:
                sub.append((rng.choice(roles) + '-of', 'h'))
            branches.append((r + ('-of' if rng.random() < 0.25 and not rm.defines(r + '-of') else ''),
                             (f'n{i}', sub)))
        else:
            branches.append((r, f'"s {i}"'))
    return ('h', branches)
