"""Graph generators, marker corruptions (DESIGN 3.6), edits (3.7) and the
JSON form of graphs used in case payloads / replay files."""
from penman.graph import Graph
from penman.layout import Push, Pop, POP, LayoutMarker
from penman.surface import Alignment, RoleAlignment

from pmon.ref.model import RefModel
from pmon.gen.trees import usable_bases, DEFAULT

BASES = [':out-of-office', ':type-of-offer', ':part-of-speech',      # '-of' inside a word is not an inversion
         ':ARG0', ':ARG1', ':ARG2', ':mod', ':domain', ':op1', ':op2', ':op10', ':polarity',
         ':quant', ':', ':x-y', ':consist-of', ':prep-on-behalf-of', ':time', ':poss', ':r0',
         ':consist', ':x', ':u']
CONSTS = ['-', 'foo', '"a b"', '"(p)"', '"a~b"', 7, 0, 0.5, -1, -1.5, 1e-7, None, '00',
          '"\\"q\\""', 'imperative', '+', 0.0, '"#x"', '\u03b5', 'c,d', 100, '"~1"',
          # symbols that begin like something else in another notation (a Lisp remark, a shell option ...)
          ';', ';x', 'x;y', '--v', '%c', '!', '@x', '$1', '&', '*', '=', '<a>', '?', '[k]', '\\n', '`t`', '{}', '|']
CONCEPTS = ['alpha', 'beta', 'i', 'a', 'b', None, '"str"', 'bark-01', 7, 0, 0.0, -2, '-']
VARPOOL = ['a', 'b', 'c', 'd', 'e', 'i', 'x1', '_', '_2', 'i2', 'v\u00e9']


# ---------------------------------------------------------------- JSON form

def marker_to_json(m):
    if isinstance(m, Push):
        return ['push', m.variable]
    if isinstance(m, Pop):
        return ['pop'] if m is POP else ['pop_new']
    if isinstance(m, RoleAlignment):
        return ['raln', m.prefix, list(m.indices)]
    if isinstance(m, Alignment):
        return ['aln', m.prefix, list(m.indices)]
    return ['other', repr(m)]


def marker_from_json(j):
    k = j[0]
    if k == 'push':
        return Push(j[1])
    if k == 'pop':
        return POP
    if k == 'pop_new':
        return Pop()
    if k == 'raln':
        return RoleAlignment(tuple(j[2]), prefix=j[1])
    if k == 'aln':
        return Alignment(tuple(j[2]), prefix=j[1])
    raise ValueError(j)


def to_json(g, explicit_top=True):
    """JSON-able description of a graph: triples, explicit top (the private slot
    is read defensively: if it is not there the public top is used), epidata as
    a list of [triple, markers] (a list, because keys need not be triples of the
    graph), metadata."""
    top = getattr(g, '_top', g.top) if explicit_top else g.top
    return {
        'triples': [list(t) for t in g.triples],
        'top': top,
        'epi': [[list(t), [marker_to_json(m) for m in ms]] for t, ms in g.epidata.items()],
        'meta': dict(g.metadata),
    }


def from_json(j):
    epi = {}
    for t, ms in j.get('epi', []):
        epi[tuple(t)] = [marker_from_json(m) for m in ms]
    return Graph([tuple(t) for t in j['triples']], top=j.get('top'), epidata=epi,
                 metadata=j.get('meta') or {})


# ---------------------------------------------------------------- WF-G generator

def rand_graph(rng, rm=None, n=None, p_inv=0.25, consts=None, concepts=None, bases=None,
               extra_edges=None, extra_attrs=None):
    """Well-formed weakly connected graph (WF-G) as (variables, triples): one
    instance triple per variable, triples distinct under Python equality and
    as written text, also after the single deinversion; roles R-canon."""
    rm = rm or DEFAULT
    pool = list(VARPOOL)
    rng.shuffle(pool)
    n = n or rng.choice([1, 2, 2, 3, 3, 4, 5, 6])
    vs = (pool + ['w%d' % j for j in range(100)])[:n]
    vset = set(vs)
    bases = usable_bases(rm, bases, own=False) if bases else usable_bases(rm, BASES)
    bases = [b for b in bases if b != rm.concept_role and b != rm.top_role]
    consts = [c for c in (consts or CONSTS) if c not in vset and str(c) not in vset]
    concepts = concepts or CONCEPTS
    triples = []
    canon = set()

    def add(s, r, t, is_edge):
        c = (t, rm.invert_role(r), s) if (is_edge and rm.inverted(r) and not rm.noop) else (s, r, t)
        c2 = (c[0], c[1], _written(c[2]))
        c3 = (c[0], c[1], c[2])
        if c2 in canon or c3 in canon:
            return False
        canon.add(c2)
        canon.add(c3)
        triples.append((s, r, t))
        return True

    for v in vs:
        triples.append((v, ':instance', rng.choice(concepts)))

    def role():
        r = rng.choice(bases)
        if rng.random() < p_inv and not rm.inverted(r) and not rm.defines(rm.invert_role(r)):
            r = rm.invert_role(r)
        return r

    for i in range(1, n):
        u = vs[rng.randrange(0, i)]
        v = vs[i]
        for _ in range(10):
            s, t = (u, v) if rng.random() < 0.6 else (v, u)
            if add(s, role(), t, True):
                break
        else:
            add(u, ':u%d' % i, v, True)
    ne = rng.randrange(0, n + 2) if extra_edges is None else extra_edges
    for _ in range(ne):
        s, t = rng.choice(vs), rng.choice(vs)
        r = role()
        if s == t and rm.inverted(r):
            continue
        add(s, r, t, True)
    na = rng.randrange(0, n + 2) if extra_attrs is None else extra_attrs
    for _ in range(na):
        const = rng.choice(consts)
        if rng.random() < 0.08:
            from pmon.gen import trees as _T
            const = _T._wide_symbol(rng, vset)          # any grammar-valid symbol over all of Unicode
        add(rng.choice(vs), role(), const, False)
    return vs, triples


def _written(c):
    return None if c is None else str(c)


def content(triples, variables, rm, top=None):
    """Graph content (DESIGN 3.5): sorted multiset of triples after the single
    deinversion of inverted edges; constants by written form."""
    out = []
    for s, r, t in triples:
        if r != rm.concept_role and t in variables and rm.inverted(r) and not rm.noop:
            s, r, t = t, rm.invert_role(r), s
        out.append((s, r, None if t is None else str(t)))
    out.sort(key=repr)
    return out


def graph_content(g, rm):
    vs = g.variables()
    return (g.top, frozenset(vs), tuple(content(g.triples, vs, rm)))


# ---------------------------------------------------------------- marker corruptions (3.6)

def corrupt(rng, g, vs, max_ops=5):
    """0..max_ops layout-marker corruptions in place; alignment markers stay on
    their triple.  Returns the list of operations applied."""
    if not g.triples:
        return []
    keep = {t: [e for e in g.epidata.get(t, []) if not isinstance(e, LayoutMarker)]
            for t in g.triples}
    ep = {t: [e for e in g.epidata.get(t, []) if isinstance(e, LayoutMarker)]
          for t in g.triples}
    ops = []
    for _ in range(rng.randrange(0, max_ops + 1)):
        k = rng.randrange(0, 8)
        t = rng.choice(g.triples)
        if k == 0:
            ep[t] = [e for e in ep[t] if rng.random() < 0.5]
            ops.append('drop')
        elif k == 1:
            ep[t].insert(rng.randrange(0, len(ep[t]) + 1), Push(rng.choice(vs)))
            ops.append('push-var')
        elif k == 2:
            ep[t].extend([POP] * rng.randrange(1, 4))
            ops.append('pops')
        elif k == 3:
            u = rng.choice(g.triples)
            ep[t], ep[u] = ep[u], ep[t]
            ops.append('swap')
        elif k == 4:
            rng.shuffle(g.triples)
            ops.append('shuffle')
        elif k == 5:
            ep[t].insert(0, Pop())
            ops.append('pop-new-front')
        elif k == 6:
            ep[t].append(Push(rng.choice(list(vs) + ['zzz'])))
            ops.append('push-any')
        elif k == 7:
            ep[t] = list(ep[t]) + list(ep[t])
            ops.append('duplicate')
    if rng.random() < 0.1:
        ep = {t: e for t, e in ep.items() if rng.random() < 0.5}
        ops.append('delete-entries')
    g.epidata = {t: keep.get(t, []) + e for t, e in ep.items()}
    return ops


# ---------------------------------------------------------------- edits (3.7)

def edit(rng, g, rm, n_ops=None, roles=(':ARG3', ':mod', ':time', ':polarity')):
    """1..5 triple-level edits that keep the graph WF-G; markers are never
    invented or moved.  In place; returns the op names."""
    ops = []
    roles = [r for r in roles if r != rm.top_role]
    for _ in range(n_ops or rng.randrange(1, 6)):
        k = rng.randrange(0, 8)
        vs_ = sorted(g.variables())
        if not g.triples:
            break
        if k == 0:
            rng.shuffle(g.triples)
            ops.append('shuffle')
        elif k == 1:
            t = rng.choice(g.triples)
            g.epidata.pop(t, None)
            ops.append('del-entry')
        elif k == 2:
            t = rng.choice(g.triples)
            if t in g.epidata:
                g.epidata[t] = [e for e in g.epidata[t] if not isinstance(e, LayoutMarker)]
            ops.append('del-layout')
        elif k == 3:
            nt = (rng.choice(vs_), rng.choice(roles), rng.choice(vs_ + ['-', '"s"', '9']))
            inv = (nt[2], rm.invert_role(nt[1]), nt[0])
            same = [x for x in g.triples if x[:2] == nt[:2] and str(x[2]) == str(nt[2])]
            if not same and inv not in g.triples and not (nt[0] == nt[2]):
                g.triples.insert(rng.randrange(0, len(g.triples) + 1), nt)
                ops.append('add-triple')
        elif k == 4:
            nv = 'n%d' % len(g.triples)
            if nv not in g.variables():
                g.triples.append((nv, ':instance', 'new'))
                g.triples.insert(rng.randrange(0, len(g.triples)), (rng.choice(vs_), ':ARG4', nv))
                ops.append('add-node')
        elif k == 5:
            vs = g.variables()
            at = [t for t in g.triples if t[1] != ':instance' and t[2] not in vs]
            if at:
                t = rng.choice(at)
                g.triples.remove(t)
                g.epidata.pop(t, None)
                ops.append('del-attr')
        elif k == 6:
            # rename a node everywhere (triples, marker keys, Push markers, top): same number of
            # triples, another set of variables
            old = rng.choice(vs_)
            new = 'q%d' % len(g.triples)
            consts = {t[2] for t in g.triples}
            if new not in g.variables() and new not in consts:
                def rn(x):
                    return new if x == old else x
                newt = [(rn(s), r, rn(t) if r != ':instance' else t) for s, r, t in g.triples]
                newepi = {}
                for (s, r, t), ms in g.epidata.items():
                    key = (rn(s), r, rn(t) if r != ':instance' else t)
                    newepi[key] = [Push(new) if isinstance(m, Push) and m.variable == old else m for m in ms]
                was_top = g.top == old
                g.triples[:] = newt
                g.epidata.clear()
                g.epidata.update(newepi)
                if was_top:
                    g.top = new
                ops.append('rename')
        elif k == 7:
            # replace the target of an attribute by another constant (same number of triples)
            vs = g.variables()
            at = [i for i, t in enumerate(g.triples) if t[1] != ':instance' and t[2] not in vs]
            if at:
                i = rng.choice(at)
                s0, r0, t0 = g.triples[i]
                nt = (s0, r0, 'repl%d' % i)
                if nt not in g.triples:
                    ms = g.epidata.pop(g.triples[i], None)
                    g.triples[i] = nt
                    if ms is not None:
                        g.epidata[nt] = ms
                    ops.append('replace-attr')
    return ops


# ---------------------------------------------------------------- well-formedness (reference)

def wellformed(g, rm=None):
    """None if WF (every source is a variable with exactly one instance
    triple), else a reason."""
    vs = g.variables()
    inst = {}
    for s, r, t in g.triples:
        if r == ':instance':
            inst[s] = inst.get(s, 0) + 1
    for s, r, t in g.triples:
        if s not in vs:
            return f'source {s!r} is not a variable'
        if inst.get(s, 0) != 1:
            return f'source {s!r} has {inst.get(s, 0)} instance triples'
    return None


def connected_from(triples, top, variables):
    """every source reachable from top over non-instance triples whose target
    is a variable (undirected)"""
    adj = {}
    for s, r, t in triples:
        if r != ':instance' and t in variables:
            adj.setdefault(s, set()).add(t)
            adj.setdefault(t, set()).add(s)
    seen = {top}
    ag = [top]
    while ag:
        c = ag.pop()
        for n in adj.get(c, ()):
            if n not in seen:
                seen.add(n)
                ag.append(n)
    return {s for s, _, _ in triples} <= seen
