"""Model zoo (DESIGN 3.2): default, AMR, no-op, the test suite's mini-AMR and
seeded random role tables.  Each entry: (name, penman Model, RefModel, spec)
where spec is the JSON-able dict the model was built from (None for built-ins).
"""
import random

from penman.model import Model
from penman.models import amr as _amr, noop as _noop

from pmon.ref.model import RefModel, RefInvModel


class InvModel(Model):
    """A user subclass of Model with its own inversion convention (':inv-ROLE').  Everything
    the library does with inverted roles is documented to go through these two methods."""

    def is_role_inverted(self, role):
        return role.startswith(':inv-')

    def invert_role(self, role):
        return ':' + role[5:] if role.startswith(':inv-') else ':inv-' + role[1:]

MINI = {
    'roles': {':ARG0': {}, ':ARG1': {}, ':accompanier': {}, ':domain': {}, ':consist-of': {},
              ':mod': {}, ':op[0-9]+': {}},
    'normalizations': {':mod-of': ':domain', ':domain-of': ':mod'},
    'reifications': [[':accompanier', 'accompany-01', ':ARG0', ':ARG1'],
                     [':mod', 'have-mod-91', ':ARG1', ':ARG2']],
}

# example instantiations of pattern roles
EXAMPLES = {
    ':ARG[0-9]': [':ARG0', ':ARG9'], ':op[0-9]+': [':op1', ':op10'], ':snt[0-9]+': [':snt2'],
    ':p[0-9]+': [':p1', ':p22'], ':q[ab]': [':qa', ':qb'],
    ':(u|w)-of': [':u-of', ':w-of'], ':prep-(out|in-place)-of': [':prep-out-of', ':prep-in-place-of'],
    ':prep-[a-z]+(-to)?': [':prep-on', ':prep-in-to'], ':w(-of)?': [':w', ':w-of'],
    ':(mod|mode|model)': [':mod', ':mode', ':model'], ':q[0-9]': [':q1', ':q7'],
}


def rand_spec(seed, chains=False):
    """Random role table.  Normalisation keys are inverted forms of defined
    literal roles, values are defined literal roles (fixed points) unless
    *chains* (then values may themselves be keys: R-norm not satisfied)."""
    rng = random.Random(f'model:{seed}')
    lits = [':r0', ':r1', ':r2', ':x-of', ':y-z-of', ':p[0-9]+', ':q[ab]', ':k', ':m-n', ':(u|w)-of',
            ':prep-(out|in-place)-of']
    chosen = rng.sample(lits, rng.randrange(2, len(lits)))
    roles = {r: {} for r in chosen}
    lit_defined = [r for r in chosen if '[' not in r]
    norms = {}
    for r in lit_defined:
        if rng.random() < 0.4 and len(lit_defined) > 1:
            v = rng.choice([x for x in lit_defined if x != r])
            norms[r + '-of'] = v
    if chains and norms:
        ks = list(norms)
        k = rng.choice(ks)
        norms[k] = rng.choice(ks)  # value is itself a key
    # reifications: unambiguous by construction unless seed % 5 == 0
    reifs = []
    cands = [r for r in lit_defined if not r.endswith('-of')]
    rng.shuffle(cands)
    for i, r in enumerate(cands[:2]):
        reifs.append([r, f'reif-{i}-91', ':in%d' % i, ':out%d' % i])
    if reifs and seed % 5 == 0:
        # ambiguous twin: same concept, swapped roles, other role
        r0 = reifs[0]
        reifs.append([':twin', r0[1], r0[3], r0[2]])
        roles[':twin'] = {}
    # (later additions draw after everything above, so the earlier parts of each table stay as they were)
    if rng.random() < 0.5 and lit_defined:
        # a plain alias: a normalisation whose key has nothing to do with inversion
        norms[':loc'] = rng.choice(lit_defined)
        if rng.random() < 0.5:
            norms[':abbr'] = rng.choice(lit_defined)
    if reifs and rng.random() < 0.5 and seed % 5 != 0:
        # one concept serving two roles with disjoint argument roles (like AMR's have-org-role-91):
        # still unambiguous
        other = cands[2] if len(cands) > 2 else ':shared'
        roles.setdefault(other, {})
        reifs.append([other, reifs[0][1], ':in9', ':out9'])
    for rf in reifs:
        roles.setdefault(rf[2], {})
        roles.setdefault(rf[3], {})
    return {'roles': roles, 'normalizations': norms, 'reifications': reifs}


_spec_n = [0]


def from_spec(spec, name):
    # the reification table is documented as an Iterable: hand it over as a list, a tuple or a
    # one-shot generator in turn
    _spec_n[0] += 1
    reifs = [tuple(r) for r in spec.get('reifications', [])]
    form = _spec_n[0] % 3
    arg = reifs if form == 0 else (tuple(reifs) if form == 1 else (r for r in reifs))
    kw = {}
    if spec.get('top_role'):
        kw['top_role'] = spec['top_role']
    m = Model(roles=spec.get('roles'), normalizations=spec.get('normalizations'), reifications=arg, **kw)
    rm = RefModel(roles=list(spec.get('roles', {})), normalizations=spec.get('normalizations'),
                  reifications=spec.get('reifications', []), name=name,
                  top_role=spec.get('top_role', ':TOP'))
    return m, rm


_cache = {}
# Model churn: every CHURN-th lookup hands out a *new* penman Model object built from the same
# table (the reference model stays cached).  Short-lived, equal-but-not-identical models of
# different tables are what exposes state keyed on the identity of a model (id() reuse after
# garbage collection) or shared between all models (class attributes, module-level caches).
CHURN = 2
AMR_SOURCE = ['not loaded']
_lookups = [0]


def _fresh(name, spec):
    if name == 'default':
        return Model()
    if name == 'amr':
        return Model(top_variable='top', top_role=':TOP', concept_role=':instance', roles=_amr.roles,
                     normalizations=_amr.normalizations, reifications=_amr.reifications)
    if name == 'noop':
        return _noop.NoOpModel()
    if name == 'inv':
        return InvModel()
    if name == 'altconcept':
        return Model(concept_role=':inst', roles=MINI['roles'], normalizations=MINI['normalizations'],
                     reifications=[tuple(r) for r in MINI['reifications']])
    return from_spec(spec, name)[0]


def get(name):
    """name: 'default' | 'amr' | 'noop' | 'mini' | 'rand<N>' | 'chain<N>'"""
    e = _get(name)
    _lookups[0] += 1
    if CHURN and _lookups[0] % CHURN == 0:
        k = _lookups[0] // CHURN
        if k % 5 == 3:
            import copy
            return (e[0], copy.deepcopy(e[1]), e[2], e[3])      # a copy of the model is that model
        if k % 5 == 4:
            import pickle
            return (e[0], pickle.loads(pickle.dumps(e[1])), e[2], e[3])
        return (e[0], _fresh(name, e[3]), e[2], e[3])
    return e


def _get(name):
    if name in _cache:
        return _cache[name]
    if name == 'default':
        m = Model()
        e = (name, m, RefModel(name=name), None)
    elif name == 'amr':
        m = _amr.model
        # role inventory and normalisations as documented (docs/api/penman.models.amr.rst), not as
        # tabulated in penman/models/amr.py; the reification table is taken from the library (the
        # documented one differs from it in four rows, O15, and C11/C12 quantify over the table)
        from pmon import core
        from pmon.ref import amr_doc
        doc = amr_doc.load(core.REPO)
        AMR_SOURCE[0] = 'documentation' if doc else 'library table (documentation page not found)'
        e = (name, m, RefModel(roles=list(doc['roles']) if doc else list(_amr.roles),
                               normalizations=doc['normalizations'] if doc else _amr.normalizations,
                               reifications=_amr.reifications, name=name), None)
    elif name == 'noop':
        m = _noop.model
        e = (name, m, RefModel(noop=True, name=name), None)
    elif name == 'inv':
        e = (name, InvModel(), RefInvModel(name=name), None)
    elif name == 'altconcept':
        # a table that names another concept role; graphs keep using ':instance' (the library's
        # graph structure does not depend on the model), so the reference keeps it as well
        m = Model(concept_role=':inst', roles=MINI['roles'], normalizations=MINI['normalizations'],
                  reifications=[tuple(r) for r in MINI['reifications']])
        rm = RefModel(roles=list(MINI['roles']) + [':inst'], normalizations=MINI['normalizations'],
                      reifications=MINI['reifications'], name=name)
        e = (name, m, rm, None)
    elif name == 'both':
        # a table that defines a role *and* its -of form (and a pattern that matches both): neither is
        # ever an inversion of the other
        spec = {'roles': {':x': {}, ':x-of': {}, ':r0': {}, ':w(-of)?': {}, ':k': {}},
                'normalizations': {':k-of': ':r0'}, 'reifications': []}
        m, rm = from_spec(spec, name)
        e = (name, m, rm, spec)
    elif name == 'prefix':
        # pattern roles that match a proper prefix of a literal role (which itself ends in -of)
        spec = {'roles': {':op[0-9]+': {}, ':op1-x-of': {}, ':prep-[a-z]+(-to)?': {}, ':prep-on-top-of': {},
                          ':r0': {}, ':r0-z': {}, ':r': {},
                          # a longer pattern that matches a proper prefix of what a shorter key matches in full,
                          # and a key whose own alternatives are prefixes of each other
                          ':ARG[0-9]': {}, ':ARG10': {}, ':(mod|mode|model)': {}, ':q[0-9]': {}, ':q1x': {}},
                'normalizations': {':r0-of': ':r'}, 'reifications': []}
        m, rm = from_spec(spec, name)
        e = (name, m, rm, spec)
    elif name == 'mini':
        m, rm = from_spec(MINI, name)
        e = (name, m, rm, MINI)
    elif name == 'miniroot':
        spec = dict(MINI, top_role=':ROOT')
        m, rm = from_spec(spec, name)
        e = (name, m, rm, spec)
    elif name.startswith('rand'):
        spec = rand_spec(int(name[4:]))
        m, rm = from_spec(spec, name)
        e = (name, m, rm, spec)
    elif name.startswith('chain'):
        spec = rand_spec(int(name[5:]), chains=True)
        m, rm = from_spec(spec, name)
        e = (name, m, rm, spec)
    else:
        raise KeyError(name)
    _cache[name] = e
    return e


FIXED = ['default', 'amr', 'noop', 'mini']


def names(n_random=40):
    return FIXED + [f'rand{i}' for i in range(n_random)]


def defined_literals(rm):
    """literal (non-pattern) instantiations of the model's roles"""
    out = []
    for p in rm.roles:
        out.extend(EXAMPLES.get(p, [p] if '[' not in p else []))
    return out
