"""pytest plugin: run the repository's own tests with the always-on laws
attached (DESIGN 2.2).  A law that fires there is either too strict or a defect
the tests do not assert.  Usage (no repository edit):
    cd /repo && PYTHONPATH=/verif:/verif/.deps PMON_PLUGIN_OUT=/path/out.json \
        /venv/bin/python -m pytest -p pmon.pytest_plugin -q -p no:cacheprovider
"""
import json
import os

from pmon import core, probe, monitors

_ctx = None


def pytest_configure(config):
    global _ctx
    _ctx = core.Ctx('pytest', 'quick', 0, 0, 1, budget_s=3600)
    monitors.audit_on()
    probe.attach(_ctx, {k: 1 for k in probe.DEFAULT_RATES})


def pytest_sessionfinish(session, exitstatus):
    out = os.environ.get('PMON_PLUGIN_OUT')
    res = {'evaluations': dict(probe.evaluations), 'violations': _ctx.violations,
           'tests_exitstatus': int(exitstatus), 'tests_collected': session.testscollected,
           'tests_failed': session.testsfailed}
    if out:
        with open(out, 'w') as fh:
            core.jdump(res, fh)


def pytest_terminal_summary(terminalreporter):
    terminalreporter.write_line(
        f'pmon laws evaluated: {dict(probe.evaluations)}; violations: {len(_ctx.violations)}')
