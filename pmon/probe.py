"""Probes: contracts attached from outside at penman's public API boundary
(DESIGN 2.2).  Every module attribute that holds a reference to a probed
function is re-bound, because names bound with ``from m import f`` before
decoration would bypass the contract.  Probes are transparent (same result /
exception, no mutation) and only the outermost probed call is evaluated, so
the recursive helpers never gain frames.

Laws (always true for every call, whatever drives it):
  C17  argument purity of the calls documented as returning a new object,
       plus no side-effect audit events inside them
  C04  layout.interpret == reference interpretation
  C08  _lexer.lex tokens tile the line and equal the reference lexer's
  C07  parse == reference recogniser (acceptance, tree, error position)
  C03  a configured tree defines each variable once and has one branch per
       triple (under a well-formedness precondition)
  C18  evaluate(quote(x)) == str(x)
A law that fires is recorded with ctx.fail(prop=<law's property>).
"""
import functools
import importlib
import pkgutil
import sys

from pmon import canon, monitors

evaluations = {}     # law name -> number of evaluations
_calls = {}          # law name -> number of probed calls (for sampling)
_depth = 0
_ctx = None
_rates = {}
_attached = False

DEFAULT_RATES = {'C17': 3, 'C04': 4, 'C08': 8, 'C07': 8, 'C03': 3, 'C18': 1}
# probed call -> evaluate every k-th call of that law (1 = every call, 0 = off)

PURE_FUNCS = {
    'penman.layout': ['interpret', 'configure', 'reconfigure', 'get_pushed_variable',
                      'appears_inverted', 'node_contexts'],
    'penman.transform': ['canonicalize_roles', 'reify_edges', 'dereify_edges',
                         'reify_attributes', 'indicate_branches'],
    'penman._format': ['format', 'format_triples'],
    'penman.codec': ['_encode', '_dumps', '_decode', '_loads'],
    'penman.surface': ['alignments', 'role_alignments'],
}
PURE_METHODS = {
    'penman.codec:PENMANCodec': ['encode', 'format', 'format_triples', 'decode'],
    'penman.model:Model': ['errors', 'invert', 'deinvert', 'canonicalize', 'reify', 'dereify'],
    'penman.graph:Graph': ['variables', 'instances', 'edges', 'attributes', 'reentrancies',
                           '__or__', '__sub__', '__eq__'],
}
# in-place operators: only the right operand must stay unchanged
RIGHT_PURE_METHODS = {'penman.graph:Graph': ['__ior__', '__isub__']}


def _due(law):
    k = _rates.get(law, 1)
    if not k:
        return False
    n = _calls.get(law, 0)
    _calls[law] = n + 1
    return n % k == 0


def _ran(law):
    evaluations[law] = evaluations.get(law, 0) + 1


def _import_all():
    import penman
    for m in pkgutil.walk_packages(penman.__path__, 'penman.'):
        try:
            importlib.import_module(m.name)
        except Exception:
            pass


def _rebind(orig, new):
    n = 0
    for name, mod in list(sys.modules.items()):
        if mod is None or not (name == 'penman' or name.startswith('penman.')):
            continue
        for attr, val in list(vars(mod).items()):
            if val is orig:
                setattr(mod, attr, new)
                n += 1
    return n


def _resolve_cls(spec):
    modname, _, cls = spec.partition(':')
    return getattr(importlib.import_module(modname), cls)


def attach(ctx, rates='default'):
    """Attach all probes.  rates: 'default' | 'off' | dict law->k."""
    global _ctx, _rates, _attached
    _ctx = ctx
    if rates == 'off':
        _rates = {k: 0 for k in DEFAULT_RATES}
    elif isinstance(rates, dict):
        _rates = dict(DEFAULT_RATES)
        _rates.update(rates)
    else:
        _rates = dict(DEFAULT_RATES)
    if _attached:
        return
    _attached = True
    _import_all()
    # purity
    for modname, names in PURE_FUNCS.items():
        mod = importlib.import_module(modname)
        for n in names:
            orig = getattr(mod, n, None)
            if orig is None:
                continue
            allow_open = n in ('_load', '_dump')
            _rebind(orig, _pure_wrapper(orig, f'{modname}.{n}', allow_open=allow_open))
    for spec, names in PURE_METHODS.items():
        cls = _resolve_cls(spec)
        for n in names:
            orig = cls.__dict__.get(n)
            if orig is None:
                continue
            setattr(cls, n, _pure_wrapper(orig, f'{spec}.{n}'))
    for spec, names in RIGHT_PURE_METHODS.items():
        cls = _resolve_cls(spec)
        for n in names:
            orig = cls.__dict__.get(n)
            if orig is None:
                continue
            setattr(cls, n, _pure_wrapper(orig, f'{spec}.{n}', skip_first=True))
    # functional laws (wrap the *current* binding so purity stays underneath)
    # each law is attached through the most public name available; a law whose function cannot
    # be found is simply not attached (its evaluation count stays 0 and is reported as such)
    import penman
    import penman.layout as L
    import penman.constant as K
    _rebind(L.interpret, _law_interpret(L.interpret))
    _rebind(L.configure, _law_configure(L.configure))
    try:
        import penman._lexer as X
        _rebind(X.lex, _law_lex(X.lex))
    except (ImportError, AttributeError):
        pass
    _rebind(penman.parse, _law_parse(penman.parse))
    _rebind(K.quote, _law_quote(K.quote, K.evaluate))


# ---------------------------------------------------------------- C17 purity

def _snap(args, kwargs, skip_first=False):
    a = args[1:] if skip_first else args
    return canon.canon((list(a), kwargs))


def _mutable(x):
    return not (x is None or isinstance(x, (str, int, float, bool)))


def _pure_wrapper(orig, label, allow_open=False, skip_first=False):
    @functools.wraps(orig)
    def wrapper(*args, **kwargs):
        global _depth
        if _depth or not any(_mutable(a) for a in args) or not _due('C17'):
            return orig(*args, **kwargs)
        if skip_first and any(a is args[0] for a in args[1:]):
            return orig(*args, **kwargs)     # g |= g / g -= g: the right operand IS the mutated one
        _depth += 1
        try:
            before = _snap(args, kwargs, skip_first)
            n_events = len(monitors.audit_events)
            try:
                with monitors.pure_region(allow_open=allow_open):
                    return orig(*args, **kwargs)
            finally:
                after = _snap(args, kwargs, skip_first)
                _ran('C17')
                if before != after:
                    _ctx.fail('purity:argument-mutated', prop='C17', mech=label,
                              detail={'call': label, 'before': repr(before)[:600],
                                      'after': repr(after)[:600]})
                if len(monitors.audit_events) > n_events:
                    _ctx.fail('purity:side-effect', prop='C17', mech=label,
                              detail={'call': label, 'events': monitors.audit_events[n_events:][:5]})
        finally:
            _depth -= 1
    wrapper.__pmon_orig__ = orig
    return wrapper


# ---------------------------------------------------------------- C04 interpret

_rm_cache = {}


def ref_model_of(model):
    """reference model for a penman Model; cached per live object through a weak reference
    (a strong reference would keep every short-lived model alive and an id()-keyed cache
    without validation would be exactly the bug the workloads try to provoke)"""
    import weakref
    from pmon.ref.model import RefModel
    if model is None:
        r = _rm_cache.get(None)
        if r is None:
            r = _rm_cache[None] = RefModel(name='default')
        return r
    ent = _rm_cache.get(id(model))
    if ent is not None and ent[0]() is model:
        return ent[1]
    if type(model).__name__ == 'InvModel':
        from pmon.ref.model import RefInvModel
        r = RefInvModel(name='inv')
    else:
        r = RefModel.from_penman(model)
    try:
        _rm_cache[id(model)] = (weakref.ref(model), r)
    except TypeError:
        pass
    if len(_rm_cache) > 512:
        for k in [k for k, v in _rm_cache.items() if k is not None and v[0]() is None]:
            del _rm_cache[k]
    return r


def _all_str_atoms(node):
    for r, t in node[1]:
        if isinstance(t, tuple):
            if not _all_str_atoms(t):
                return False
        elif not (t is None or isinstance(t, str)):
            return False
    return isinstance(node[0], str) or node[0] is None


def interpret_disagreement(tree, model, g):
    """None, or a description of how g differs from the reference reading."""
    from pmon.ref import interp
    rm = ref_model_of(model)
    node = tree.node
    if not _all_str_atoms(node) or interp.ambiguous_colonless(node, rm):
        return 'skip'
    try:
        top, triples, occ = interp.interpret(node, rm)
    except (ValueError, IndexError):
        return 'skip'       # malformed alignment text in a hand-built tree
    if g.top != top:
        return f'top {g.top!r} != reference {top!r}'
    if list(g.triples) != triples:
        return f'triples {g.triples!r} != reference {triples!r}'
    want = interp.first_wins(triples, occ)
    got = {}
    for tr, ms in g.epidata.items():
        lst = []
        for m in ms:
            cn = type(m).__name__
            if cn == 'RoleAlignment':
                lst.append(('role', (m.prefix, tuple(m.indices))))
            elif cn == 'Alignment':
                lst.append(('target', (m.prefix, tuple(m.indices))))
        if lst:
            got[tr] = lst
    if got != want:
        return f'alignments {got!r} != reference {want!r}'
    if dict(g.metadata) != dict(tree.metadata):
        return f'metadata {g.metadata!r} != tree metadata {tree.metadata!r}'
    return None


def _law_interpret(orig):
    @functools.wraps(orig)
    def wrapper(t, model=None):
        global _depth
        g = orig(t, model)
        if _depth or not _due('C04'):
            return g
        _depth += 1
        try:
            d = interpret_disagreement(t, model, g)
            if d != 'skip':
                _ran('C04')
                if d:
                    _ctx.fail('interpret!=reference', prop='C04', mech=d.split()[0],
                              detail={'tree': repr(t.node)[:800], 'model': type(model).__name__,
                                      'diff': d[:800]})
        finally:
            _depth -= 1
        return g
    wrapper.__pmon_orig__ = orig
    return wrapper


# ---------------------------------------------------------------- C03 configure

def _law_configure(orig):
    @functools.wraps(orig)
    def wrapper(g, top=None, model=None):
        global _depth
        tree = orig(g, top=top, model=model)
        if _depth or not _due('C03'):
            return tree
        _depth += 1
        try:
            d = configure_disagreement(g, tree, model)
            if d != 'skip':
                _ran('C03')
                if d:
                    _ctx.fail('configure:conservation', prop='C03', mech=d.split()[0],
                              detail={'triples': repr(g.triples)[:800], 'top': repr(top),
                                      'tree': repr(tree.node)[:800], 'diff': d})
        finally:
            _depth -= 1
        return tree
    wrapper.__pmon_orig__ = orig
    return wrapper


def configure_disagreement(g, tree, model):
    rm = ref_model_of(model)
    triples = list(g.triples)
    try:
        if len(set(triples)) != len(triples):
            return 'skip'
    except TypeError:
        return 'skip'
    inst = {}
    sources = set()
    tset = set(triples)
    for s, r, t in triples:
        sources.add(s)
        if r == rm.concept_role:
            inst[s] = inst.get(s, 0) + 1
    if any(inst.get(s, 0) != 1 for s in sources):
        return 'skip'
    for s, r, t in triples:
        if r != rm.concept_role and t in sources:
            if (t, rm.invert_role(r), s) in tset and (t, rm.invert_role(r), s) != (s, r, t):
                return 'skip'
    # post: each variable defined at most once; one branch per triple
    seen = set()
    nbranches = 0
    stack = [tree.node]
    while stack:
        v, br = stack.pop()
        if v in seen:
            return f'redefined variable {v!r} is defined twice in the configured tree'
        seen.add(v)
        for r, t in br:
            nbranches += 1
            if isinstance(t, tuple):
                stack.append(t)
    expect = sum(1 for s, r, t in triples
                 if not (r == rm.concept_role and (t is None or t == '')))
    if nbranches != expect:
        return f'branches {nbranches} != {expect} triples to express'
    return None


# ---------------------------------------------------------------- C08 lex

def lex_disagreement(lines, pattern, orig):
    from pmon.ref import lexer as R
    import penman._lexer as X
    if pattern is None or pattern is getattr(X, 'PENMAN_RE', object()):
        triple = False
    elif pattern is getattr(X, 'TRIPLE_RE', object()):
        triple = True
    else:
        return 'skip'
    if isinstance(lines, str):
        ref_lines = R.split_lines(lines)
    elif isinstance(lines, (list, tuple)):
        ref_lines = list(lines)
    else:
        return 'skip'
    try:
        toks = list(orig(lines, pattern=pattern))
    except Exception as e:       # lex itself never raises on str input
        return f'raised {type(e).__name__}: {e}'
    return tokens_disagreement(toks, ref_lines, triple)


def tokens_disagreement(toks, ref_lines, triple):
    from pmon.ref import lexer as R
    exp = []
    for ln, line in enumerate(ref_lines, 1):
        exp.extend(R.lex_line(line, ln, triple))
    got = [(t.type, t.text, t.lineno, t.offset) for t in toks]
    # tiling laws, stated on the produced tokens alone
    last = (0, 0)
    for t in toks:
        if not (1 <= t.lineno <= len(ref_lines)):
            return f'bad-lineno {t!r}'
        line = ref_lines[t.lineno - 1]
        if t.line != line:
            return f'bad-line attribute of {t!r}'
        if line[t.offset:t.offset + len(t.text)] != t.text or not t.text:
            return f'bad-span {t!r}'
        pos = (t.lineno, t.offset)
        if pos < last:
            return f'overlap-or-order {t!r}'
        last = (t.lineno, t.offset + len(t.text))
    if got != exp:
        for i, (a, b) in enumerate(zip(got, exp)):
            if a != b:
                return f'token-mismatch at #{i}: got {a!r} reference {b!r}'
        return f'token-count got {len(got)} reference {len(exp)}: {got[len(exp):][:3]!r} / {exp[len(got):][:3]!r}'
    return None


def _law_lex(orig):
    @functools.wraps(orig)
    def wrapper(lines, pattern=None):
        global _depth
        if _depth or not isinstance(lines, (str, list, tuple)) or not _due('C08'):
            return orig(lines, pattern=pattern)
        _depth += 1
        try:
            d = lex_disagreement(lines, pattern, orig)
            if d != 'skip':
                _ran('C08')
                if d:
                    _ctx.fail('lex!=reference', prop='C08', mech=d.split()[0],
                              detail={'input': repr(lines)[:400], 'diff': d[:600]})
        finally:
            _depth -= 1
        return orig(lines, pattern=pattern)
    wrapper.__pmon_orig__ = orig
    return wrapper


# ---------------------------------------------------------------- C07 parse

def parse_outcome_ref(s):
    from pmon.ref import lexer as R
    lim = sys.getrecursionlimit()
    sys.setrecursionlimit(max(lim, 20000))
    try:
        node, meta = R.ref_parse(s)
        return ('ok', node, meta)
    except R.Reject as r:
        return ('rej', r.lineno, r.offset)
    finally:
        sys.setrecursionlimit(lim)


def _law_parse(orig):
    from penman.exceptions import DecodeError

    @functools.wraps(orig)
    def wrapper(s):
        global _depth
        if _depth or not isinstance(s, str) or not _due('C07'):
            return orig(s)
        got = None
        try:
            t = orig(s)
            got = ('ok', t.node, dict(t.metadata))
            return t
        except DecodeError as e:
            got = ('rej', e.lineno, e.offset)
            raise
        finally:
            if got is not None:
                _depth += 1
                try:
                    exp = parse_outcome_ref(s)
                    _ran('C07')
                    if got != exp:
                        _ctx.fail('parse!=reference', prop='C07',
                                  mech=f'{got[0]}-vs-{exp[0]}',
                                  detail={'input': s[:400], 'got': repr(got)[:400],
                                          'reference': repr(exp)[:400]})
                finally:
                    _depth -= 1
    wrapper.__pmon_orig__ = orig
    return wrapper


# ---------------------------------------------------------------- C18 quote

def _law_quote(orig, evaluate):
    @functools.wraps(orig)
    def wrapper(constant):
        global _depth
        q = orig(constant)
        if _depth or not _due('C18'):
            return q
        _depth += 1
        try:
            _ran('C18')
            want = '' if constant is None else str(constant)
            try:
                back = evaluate(q)
            except Exception as e:
                back = e
            if back != want or not isinstance(q, str):
                _ctx.fail('evaluate(quote(x))!=x', prop='C18', mech='quote',
                          detail={'x': repr(constant)[:200], 'quoted': repr(q)[:200],
                                  'evaluated': repr(back)[:200]})
        finally:
            _depth -= 1
        return q
    wrapper.__pmon_orig__ = orig
    return wrapper


def original(fn):
    """the unprobed function underneath (for oracles that must not recurse)"""
    while hasattr(fn, '__pmon_orig__'):
        fn = fn.__pmon_orig__
    return fn
