"""Known-findings file (committed, never written at run time).

An ``open`` entry turns exactly the violations its matcher accepts into
KNOWN-FINDING lines; a ``fixed`` entry suppresses nothing.  Matchers are keyed
by mechanism (a predicate over the witness), never by seed or hash.
"""
import json
import os
import string

PATH = os.path.join(os.path.dirname(os.path.dirname(os.path.abspath(__file__))),
                    'known_findings.json')


def load():
    try:
        with open(PATH) as fh:
            return json.load(fh).get('findings', [])
    except FileNotFoundError:
        return []


def match(findings, v):
    for f in findings:
        if f.get('status') != 'open':
            continue
        if f.get('property') != v.get('property'):
            continue
        fn = MATCHERS.get(f.get('matcher'))
        if fn is None:
            continue
        try:
            if fn(v):
                return f
        except Exception:
            continue
    return None


# ---------------------------------------------------------------- matchers

def _format_fields(fmt):
    try:
        return {name for _, name, _, _ in string.Formatter().parse(fmt) if name}
    except ValueError:
        return set()


def _nodes(node, acc):
    var, branches = node
    acc.append(node)
    for _, t in branches:
        if isinstance(t, (list, tuple)):
            _nodes(t, acc)
    return acc


def m_index_free_format_collision(v):
    """F19: reset_variables with a format that has neither {i} nor {j}, on a
    tree in which two nodes format identically, exhausts the step budget."""
    if not str(v.get('clause', '')).endswith('step-budget'):
        return False
    case = v.get('case') or [None, {}]
    payload = case[1] if isinstance(case, (list, tuple)) and len(case) > 1 else {}
    fmt = payload.get('fmt')
    tree = payload.get('tree')
    if fmt is None or tree is None:
        return False
    fields = _format_fields(fmt)
    if 'i' in fields or 'j' in fields:
        return False
    from pmon.ref.relabel import prefix_of
    names = []
    for var, branches in _nodes(tree, []):
        concept = next((t for r, t in branches if r == '/'), None)
        try:
            names.append(fmt.format(prefix=prefix_of(concept), i=0, j=''))
        except Exception:
            return False
    return len(set(names)) < len(names)


def m_canonicalize_then_layout_inverts_normalisable_role(v):
    """F22: --canonicalize-roles canonicalises the *input* tree; when a transformation
    (reification) disturbs the layout, configure may write a normalisable inverted role
    (AMR :domain-of) into the output, which a second pass canonicalises (to :mod) and,
    the role now being reifiable, reifies."""
    if v.get('clause') != 'not-idempotent':
        return False
    d = v.get('detail') or {}
    opts = d.get('options') or []
    return ('canonicalize_roles' in opts and ('reify_edges' in opts or 'dereify_edges' in opts)
            and bool(d.get('noncanonical_roles_in_first_output')))


MATCHERS = {
    'canonicalize_then_layout_inverts_normalisable_role': m_canonicalize_then_layout_inverts_normalisable_role,
    'index_free_format_collision': m_index_free_format_collision,
}
