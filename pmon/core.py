"""Run context, three-valued verdicts, replay files, evidence (DESIGN 2.4-2.6)."""
import hashlib
import json
import os
import random
import sys
import time
import traceback
from array import array

from pmon import monitors

ROOT = os.path.dirname(os.path.dirname(os.path.abspath(__file__)))
# PMON_REPO / PMON_OUT let the mutant self-tests run the same checks against a scratch
# worktree in parallel; the registered commands never set them (tree under test = /repo)
REPO = os.environ.get('PMON_REPO', '/repo').rstrip('/')
OUT = os.environ.get('PMON_OUT') or os.path.join(ROOT, 'out')
EVIDENCE = os.path.join(ROOT, 'evidence')
MAX_REPLAYS = 20
MAX_SAMPLES = 6


def jdump(obj, fh=None, **kw):
    kw.setdefault('ensure_ascii', True)
    if fh is None:
        return json.dumps(obj, default=_default, **kw)
    json.dump(obj, fh, default=_default, **kw)


def _default(o):
    if isinstance(o, (set, frozenset)):
        return sorted(o, key=repr)
    if isinstance(o, tuple):
        return list(o)
    if isinstance(o, bytes):
        return o.decode('latin-1')
    return repr(o)


def digest(obj):
    """64-bit digest of a canonical repr."""
    b = repr(obj).encode('utf-8', 'surrogatepass')
    return int.from_bytes(hashlib.blake2b(b, digest_size=8).digest(), 'big')


class Ctx:
    """Per-process run context handed to cases() / oracle()."""

    def __init__(self, check_id, tier='quick', seed=0, shard=0, nshards=1,
                 budget_s=40.0, replay=False):
        self.id = check_id
        self.tier = tier
        self.seed = seed
        self.shard = shard
        self.nshards = nshards
        self.budget_s = budget_s
        self.replay = replay
        self.t0 = time.time()
        self.evaluations = 0
        self.enumerated_n = 0          # distinct by construction
        self.enumerated_nontrivial = 0
        self.seen = set()              # digests of non-trivial random cases
        self.trivial = 0
        self.samples = []
        self.counters = {}
        self.violations = []           # dicts
        self._vkeys = set()
        self.suppressed = 0            # violations beyond dedup/limit
        self.inconclusive = []
        self.current = None            # (kind, payload) being decided
        self.notes = {}
        self.exhaustive = {}           # name -> size of a fully enumerated sub-space

    # ------------------------------------------------------------ randomness
    def rng(self, *key):
        k = ':'.join(str(x) for x in (self.seed, self.id, self.shard) + key)
        return random.Random(k)

    def mine(self, index):
        """True if enumerated item *index* belongs to this shard."""
        return index % self.nshards == self.shard

    # ------------------------------------------------------------ time
    def elapsed(self):
        return time.time() - self.t0

    def new_phase(self):
        """the random phase of a workload gets the whole budget for itself, however long the
        enumerated phase before it took"""
        self.phase_t0 = time.time()

    def time_left(self, frac=1.0):
        t0 = getattr(self, 'phase_t0', self.t0)
        return (time.time() - t0) < self.budget_s * frac

    # ------------------------------------------------------------ counting
    def case(self, canon, nontrivial=True):
        """Register one random evaluation with its canonical form."""
        self.evaluations += 1
        if nontrivial:
            self.seen.add(digest(canon))
        else:
            self.trivial += 1

    def enumerated(self, nontrivial=True, n=1):
        """Register evaluations that are distinct by construction."""
        self.evaluations += n
        self.enumerated_n += n
        if nontrivial:
            self.enumerated_nontrivial += n
        else:
            self.trivial += n

    def count(self, name, n=1):
        self.counters[name] = self.counters.get(name, 0) + n

    def sample(self, obj, force=False):
        if len(self.samples) < MAX_SAMPLES or force:
            self.samples.append(obj)

    def want_sample(self):
        return len(self.samples) < MAX_SAMPLES

    # ------------------------------------------------------------ verdicts
    def fail(self, clause, detail=None, mech='', prop=None, payload=None):
        """Record a violation of *clause* (dedup by clause+mech)."""
        prop = prop or self.id
        key = (prop, clause, mech)
        self.count('violations_raw')
        if key in self._vkeys or len(self.violations) >= MAX_REPLAYS:
            self.suppressed += 1
            return
        self._vkeys.add(key)
        cur = payload if payload is not None else self.current
        v = {
            'property': prop, 'check': self.id, 'clause': clause, 'mech': mech,
            'detail': detail, 'case': cur, 'seed': self.seed, 'tier': self.tier,
            'shard': self.shard,
        }
        self.violations.append(v)

    def inconclusive_because(self, reason):
        if reason not in self.inconclusive:
            self.inconclusive.append(reason)

    # ------------------------------------------------------------ calling code under test
    def call(self, fn, *args, allowed=(), clause=None, n=None, **kw):
        """Call code under test.  Returns (True, value) or (False, exc) for an
        *allowed* exception; any other exception is a violation (and returns
        (False, exc)).  With n= the call runs under the step budget B(n)."""
        try:
            if n is not None:
                with monitors.step_budget(monitors.B(n)) as info:
                    val = fn(*args, **kw)
                self.counters['max_steps'] = max(self.counters.get('max_steps', 0), info['steps'])
                self.count('budgeted_calls')
            else:
                val = fn(*args, **kw)
            return True, val
        except monitors.StepBudget as e:
            self.fail((clause or _name(fn)) + ':step-budget', detail=str(e), mech=_name(fn))
            return False, e
        except allowed as e:
            return False, e
        except RecursionError as e:
            self.fail((clause or _name(fn)) + ':unexpected-exception', mech='RecursionError',
                      detail='RecursionError')
            return False, e
        except Exception as e:
            tb = traceback.extract_tb(e.__traceback__)
            where = ''
            for fr in reversed(tb):
                if fr.filename.startswith(REPO + '/'):
                    where = f'{os.path.basename(fr.filename)}:{fr.name}'
                    break
            self.fail((clause or _name(fn)) + ':unexpected-exception',
                      detail=f'{type(e).__name__}: {e!s}'[:400] + ' @ ' + where,
                      mech=f'{type(e).__name__}@{where}')
            return False, e

    # ------------------------------------------------------------ result
    def result(self):
        return {
            'shard': self.shard,
            'evaluations': self.evaluations,
            'enumerated': self.enumerated_n,
            'enumerated_nontrivial': self.enumerated_nontrivial,
            'random_distinct_nontrivial': len(self.seen),
            'trivial': self.trivial,
            'samples': self.samples[:MAX_SAMPLES],
            'counters': self.counters,
            'violations': self.violations,
            'suppressed': self.suppressed,
            'inconclusive': self.inconclusive,
            'notes': self.notes,
            'exhaustive': self.exhaustive,
            'wall_s': round(self.elapsed(), 3),
            'max_step_ratio': round(monitors.max_ratio, 5),
            'audit_events': monitors.audit_events[:20],
            'audit_seen': monitors.audit_seen,
        }


def _name(fn):
    return getattr(fn, '__qualname__', None) or getattr(fn, '__name__', repr(fn))


def write_digests(path, seen):
    a = array('Q', sorted(seen))
    with open(path, 'wb') as fh:
        a.tofile(fh)


def read_digests(path):
    a = array('Q')
    try:
        with open(path, 'rb') as fh:
            a.frombytes(fh.read())
    except FileNotFoundError:
        pass
    return a
