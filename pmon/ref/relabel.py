"""Reference notion of variable relabelling (C10), from the docstring of
Tree.reset_variables and docs: prefix = first alphabetic character of the
node's concept (without its alignment), lower-cased, else '_'; i = 0-based
index of the occurrence of the generated name; j = '' for the first, 2, 3 ...
afterwards; nodes are visited in depth-first order."""
from pmon.ref.interp import split_atom


def prefix_of(concept):
    if isinstance(concept, str):
        c0, _ = split_atom(concept)
        for ch in c0 or '':
            if ch.isalpha():
                return ch.lower()
    return '_'


def dfs_nodes(node, acc=None):
    acc = [] if acc is None else acc
    if node[0] is not None:
        acc.append(node)
    for r, t in node[1]:
        if isinstance(t, (tuple, list)) and len(t) == 2 and isinstance(t[1], list):
            dfs_nodes(t, acc)
    return acc


def concept_of(node):
    return next((t for r, t in node[1] if r == '/'), None)


def ref_map(node, fmt, limit=100000):
    """exact expected map old -> new (smallest index whose name is unused)"""
    used = set()
    m = {}
    for nd in dfs_nodes(node):
        v = nd[0]
        if v in m:
            continue
        pre = prefix_of(concept_of(nd))
        i = 0
        while True:
            nv = fmt.format(prefix=pre, i=i, j='' if i == 0 else i + 1)
            i += 1
            if nv not in used:
                break
            if i > limit:
                raise RuntimeError('format cannot avoid collisions')
        used.add(nv)
        m[v] = nv
    return m


def rename(node, m):
    """apply map m at every definition and reference (alignments kept)"""
    v, br = node
    out = []
    for r, x in br:
        if isinstance(x, tuple):
            x = rename(x, m)
        elif r != '/' and isinstance(x, str) and not x.startswith('"'):
            a, _ = split_atom(x)
            if a in m:
                x = m[a] + x[len(a):]
        out.append((r, x))
    return (m.get(v, v), out)
