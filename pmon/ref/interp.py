"""Reference interpretation (C04), written from docs/notation.rst,
docs/structures.rst and docs/serialization.rst — shares no code with
penman/layout.py.

Reading of a tree under a model:
* variables = the variables of all nodes;
* per node, in branch order: '/' (or a written ':instance') gives the
  instance triple; a node with neither gets (v, :instance, None) *first*;
* a branch to a nested node gives (v, r, w), deinverted once (source and
  target swapped, one '-of' removed) when r is inverted and the model is not
  the no-op model; then the nested node's triples follow (depth first);
* a branch to an atom is deinverted only if the atom is a variable of the tree;
* alignments (~...) are split off roles and targets (string-aware) and reported
  per triple occurrence; for duplicate triples the first occurrence wins.
"""


def split_role(role):
    if role == '/':
        return ':instance', None
    if '~' in role:
        r, _, a = role.partition('~')
        return r, a
    return role, None


def split_atom(t):
    """(atom text, alignment text or None); a '~' inside quotes is content."""
    if t is None or not isinstance(t, str) or '~' not in t:
        return t, None
    if t.startswith('"'):
        k = t.rindex('"') + 1
        if k < len(t):
            return t[:k], t[k:].lstrip('~')
        return t, None
    a, _, b = t.partition('~')
    return a, b


def parse_aln(a):
    """alignment text (without '~') -> (prefix or None, indices)"""
    if a is None:
        return None
    a = a.lstrip('~')
    pre = None
    if a and a[0].isalpha():
        i = 2 if len(a) > 1 and a[1] == '.' else 1
        pre, a = a[:i], a[i:]
    return (pre, tuple(int(x) for x in a.split(',')))


def tree_vars(node, acc=None):
    acc = set() if acc is None else acc
    v, br = node
    if v is not None:
        acc.add(v)
    for r, t in br:
        if isinstance(t, tuple):
            tree_vars(t, acc)
    return acc


def colon(r):
    return r if r.startswith(':') else ':' + r


def interpret(node, rm):
    """-> (top, triples, occurrences) where occurrences[i] is the list of
    ('role'|'target', (prefix, indices)) written on the i-th triple."""
    variables = tree_vars(node)
    triples = []
    occ = []

    def emit(tr, alns, at=None):
        if at is None:
            triples.append(tr)
            occ.append(alns)
        else:
            triples.insert(at, tr)
            occ.insert(at, alns)

    def walk(nd):
        v, br = nd
        has_concept = False
        start = len(triples)
        for role, t in br:
            r, ra = split_role(role)
            r = colon(r)
            alns = []
            if ra is not None:
                alns.append(('role', parse_aln(ra)))
            if r == ':instance':
                has_concept = True
            if isinstance(t, tuple):
                tv = t[0]
                if rm.inverted(r) and not rm.noop:
                    tr = (tv, rm.invert_role(r), v)
                else:
                    tr = (v, r, tv)
                emit(tr, alns)
                walk(t)
            else:
                a, ta = split_atom(t)
                if ta is not None:
                    alns.append(('target', parse_aln(ta)))
                if rm.inverted(r) and not rm.noop and a in variables:
                    tr = (a, rm.invert_role(r), v)
                else:
                    tr = (v, r, a)
                emit(tr, alns)
        if not has_concept:
            emit((v, ':instance', None), [], at=start)

    walk(node)
    return node[0], triples, occ


def first_wins(triples, occ):
    """triple -> alignment list of its first occurrence (only non-empty ones)"""
    m = {}
    seen = set()
    for tr, a in zip(triples, occ):
        if tr in seen:
            continue
        seen.add(tr)
        if a:
            m[tr] = a
    return m


def ambiguous_colonless(node, rm):
    """True if the tree has a colon-less role whose colon-ful form is a
    model-defined role ending in -of (outside C04's parseable trees; the
    reading of such a role is not documented)."""
    for r, t in node[1]:
        base = r.partition('~')[0]
        if r.startswith('/') and r != '/':
            return True      # '/~e.1': not producible by the parser (configure writes it for an
            #                  aligned ':instance~e.1' role); its reading is not documented
        if base != '/' and not base.startswith(':'):
            if base.endswith('-of') and rm.defines(':' + base):
                return True
        if isinstance(t, tuple) and ambiguous_colonless(t, rm):
            return True
    return False
