"""Reference lexer + recogniser written from docs/notation.rst and the
property statements (C07/C08), independent of penman/_lexer.py (no `re`)."""

BLANKS = ' \t\r\n\v\f'
NONNAME = BLANKS + '"()/:~'


def is_name(c):
    return c not in NONNAME


def lex_line(line, lineno, triple_mode=False):
    """Yield (type, text, lineno, offset)."""
    i, n = 0, len(line)
    out = []
    while i < n:
        c = line[i]
        if c in BLANKS:
            # skip the whole run of blanks at once
            i = n - len(line[i:].lstrip(BLANKS))
            continue
        start = i
        if c == '#':
            # comment to end of line (excluding a trailing newline)
            j = n
            # '.' does not match '\n'; comment stops at first '\n'
            k = line.find('\n', i)
            if k != -1:
                j = k
            out.append(('COMMENT', line[i:j], lineno, start))
            i = j
            continue
        if c == '"':
            j = i + 1
            ok = False
            while j < n:
                d = line[j]
                if d == '\\':
                    if j + 1 < n and line[j + 1] != '\n':
                        j += 2
                        continue
                    break
                if d == '"':
                    ok = True
                    break
                j += 1
            if ok:
                out.append(('STRING', line[i:j + 1], lineno, start))
                i = j + 1
                continue
            out.append(('UNEXPECTED', c, lineno, start))
            i += 1
            continue
        if c == '(':
            out.append(('LPAREN', c, lineno, start)); i += 1; continue
        if c == ')':
            out.append(('RPAREN', c, lineno, start)); i += 1; continue
        if triple_mode:
            if is_name(c):
                j = i
                while j < n and is_name(line[j]):
                    j += 1
                out.append(('SYMBOL', line[i:j], lineno, start)); i = j; continue
            out.append(('UNEXPECTED', c, lineno, start)); i += 1; continue
        if c == '/':
            out.append(('SLASH', c, lineno, start)); i += 1; continue
        if c == ':':
            j = i + 1
            while j < n and is_name(line[j]):
                j += 1
            out.append(('ROLE', line[i:j], lineno, start)); i = j; continue
        if c == '~':
            # Alignment <- '~' ([a-zA-Z] '.'?)? Digit+ (',' Digit+)*
            def digits(j):
                k = j
                while k < n and line[k] in '0123456789':
                    k += 1
                return k
            best = None
            # PEG-ish with backtracking like the regex: try with prefix
            cands = []
            j = i + 1
            if j < n and line[j].isascii() and line[j].isalpha():
                cands.append(j + 2 if (j + 1 < n and line[j + 1] == '.') else None)
                cands.append(j + 1)
            cands.append(i + 1)
            for st in cands:
                if st is None:
                    continue
                k = digits(st)
                if k == st:
                    continue
                while k < n and line[k] == ',':
                    k2 = digits(k + 1)
                    if k2 == k + 1:
                        break
                    k = k2
                best = k
                break
            if best is not None:
                out.append(('ALIGNMENT', line[i:best], lineno, start)); i = best; continue
            out.append(('UNEXPECTED', c, lineno, start)); i += 1; continue
        # symbol
        j = i
        while j < n and is_name(line[j]):
            j += 1
        out.append(('SYMBOL', line[i:j], lineno, start)); i = j
    return out


def split_lines(s, keepends=False):
    """Only LF, CRLF, CR end a line (keepends: each line keeps the terminator that ended it)."""
    lines = []
    start = 0
    while True:
        a = s.find('\n', start)
        b = s.find('\r', start)
        if a == -1 and b == -1:
            lines.append(s[start:])
            return lines
        if b == -1 or (a != -1 and a < b):
            k, nxt = a, a + 1
        else:
            k = b
            nxt = b + 2 if s.startswith('\n', b + 1) else b + 1
        lines.append(s[start:nxt] if keepends else s[start:k])
        start = nxt


def lex(s_or_lines, triple_mode=False):
    lines = split_lines(s_or_lines) if isinstance(s_or_lines, str) else list(s_or_lines)
    toks = []
    for ln, line in enumerate(lines, 1):
        toks.extend(lex_line(line, ln, triple_mode))
    return toks


class Reject(Exception):
    def __init__(self, lineno, offset, msg=''):
        self.lineno, self.offset, self.msg = lineno, offset, msg


class P:
    def __init__(self, toks):
        self.t = toks
        self.i = 0

    def eof_err(self):
        if self.i > 0:
            ty, tx, ln, off = self.t[self.i - 1]
            return Reject(ln, off + len(tx), 'eof')
        return Reject(0, 0, 'eof')

    def peek(self):
        if self.i >= len(self.t):
            raise self.eof_err()
        return self.t[self.i]

    def more(self):
        return self.i < len(self.t)

    def next(self):
        t = self.peek()
        self.i += 1
        return t

    def expect(self, *types):
        t = self.peek()
        if t[0] not in types:
            # NB: real impl consumes the token before raising; position is the token's
            raise Reject(t[2], t[3], 'expected ' + ','.join(types))
        self.i += 1
        return t


def parse_comments(p):
    meta = {}
    while p.peek()[0] == 'COMMENT':
        c = p.next()[1]
        # documented: "# ::key value ::key2 value2"
        while c:
            k = c.rfind('::')
            if k < 0:
                break
            seg = c[k + 2:]
            c = c[:k]
            key, _, val = seg.partition(' ')
            meta[key] = val.rstrip()
    return meta


def parse_node(p, depth=0):
    p.expect('LPAREN')
    var = None
    edges = []
    if p.peek()[0] != 'RPAREN':
        var = p.expect('SYMBOL')[1]
        if p.peek()[0] == 'SLASH':
            p.next()
            concept = None
            if p.peek()[0] in ('SYMBOL', 'STRING'):
                concept = p.next()[1]
                if p.peek()[0] == 'ALIGNMENT':
                    concept += p.next()[1]
            edges.append(('/', concept))
        while p.peek()[0] != 'RPAREN':
            edges.append(parse_edge(p, depth))
    p.expect('RPAREN')
    return (var, edges)


def parse_edge(p, depth):
    role = p.expect('ROLE')[1]
    if p.peek()[0] == 'ALIGNMENT':
        role += p.next()[1]
    t = p.peek()
    target = None
    if t[0] in ('SYMBOL', 'STRING'):
        target = p.next()[1]
        if p.peek()[0] == 'ALIGNMENT':
            target += p.next()[1]
    elif t[0] == 'LPAREN':
        target = parse_node(p, depth + 1)
    elif t[0] not in ('ROLE', 'RPAREN'):
        raise Reject(t[2], t[3], 'expected target')
    return (role, target)


def parse_one(p):
    meta = parse_comments(p)
    node = parse_node(p)
    return node, meta


def ref_parse(s):
    p = P(lex(s))
    return parse_one(p)


def ref_iterparse(s_or_lines):
    p = P(lex(s_or_lines))
    out = []
    while p.more() and p.peek()[0] in ('COMMENT', 'LPAREN'):
        out.append(parse_one(p))
    return out


def ref_parse_triples(s):
    p = P(lex(s, triple_mode=True))
    triples = []
    strip = False
    while True:
        role = p.expect('SYMBOL')[1]
        if strip and role.startswith('^'):
            role = role[1:]
        if not role.startswith(':'):
            role = ':' + role
        p.expect('LPAREN')
        sym = p.expect('SYMBOL')[1]
        source, comma, rest = sym.partition(',')
        target = None
        def opt(*types):
            if p.more() and p.peek()[0] in types:
                return p.next()
            return None
        if rest:
            target = rest
        elif comma:
            t = opt('SYMBOL', 'STRING')
            if t: target = t[1]
        else:
            t = opt('SYMBOL')
            if t is None:
                pass
            elif t[1] == ',':
                t2 = opt('SYMBOL', 'STRING')
                if t2: target = t2[1]
            elif t[1].startswith(','):
                target = t[1][1:]
            else:
                raise Reject(t[2], t[3], "expected ','")
        p.expect('RPAREN')
        triples.append((source, role, target))
        if p.more():
            n = p.peek()
            if n[0] != 'SYMBOL' or not n[1].startswith('^'):
                break
            if n[1] == '^':
                strip = False
                p.next()
            else:
                strip = True
        else:
            break
    return triples
