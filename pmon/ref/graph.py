"""Sequential reference model of penman.graph.Graph (C15) and of
Model.errors (C16), written from docs/structures.rst / api docs."""
import collections


def colon(r):
    return r if r.startswith(':') else ':' + r


class RefGraph:
    """triples: list of 3-tuples; top: explicit top or None; epi: dict
    triple -> tuple(marker canon); meta: dict."""

    def __init__(self, triples=(), top=None, epi=None, meta=None):
        self.triples = [(s, colon(r), t) for s, r, t in triples]
        self.xtop = top
        self.epi = dict(epi or {})
        self.meta = dict(meta or {})

    def copy(self):
        return RefGraph(self.triples, self.xtop, self.epi, self.meta)

    # queries
    def variables(self):
        vs = {s for s, _, _ in self.triples}
        if self.xtop is not None:
            vs.add(self.xtop)
        return vs

    @property
    def top(self):
        if self.xtop is not None:
            return self.xtop
        return self.triples[0][0] if self.triples else None

    def instances(self):
        return [t for t in self.triples if t[1] == ':instance']

    def edges(self):
        vs = self.variables()
        return [t for t in self.triples if t[1] != ':instance' and t[2] in vs]

    def attributes(self):
        vs = self.variables()
        return [t for t in self.triples if t[1] != ':instance' and t[2] not in vs]

    def reentrancies(self):
        deg = collections.Counter(t[2] for t in self.edges())
        if self.top is not None:
            deg[self.top] += 1
        return {v: c - 1 for v, c in deg.items() if c >= 2}

    def can_set_top(self, v):
        return v is None or v in self.variables()

    # set algebra (returns new model graph; `inplace` mutates self)
    def union(self, other, inplace=False):
        g = self if inplace else self.copy()
        if not inplace:
            g.meta = {}
        mine = set(g.triples)
        added = [t for t in other.triples if t not in mine]
        # de-duplicate within the added part?  The statement says "order
        # preserving set operation": h's triples not in g, in h's order; h's own
        # duplicates stay duplicates (h is a list) - both readings are accepted
        g.triples = g.triples + added
        g.added = set(added)
        return g

    def difference(self, other, inplace=False):
        g = self if inplace else self.copy()
        if not inplace:
            g.meta = {}
        rem = set(other.triples)
        g.triples = [t for t in g.triples if t not in rem]
        for t in rem:
            g.epi.pop(t, None)
        occ = {v for t in g.triples for v in (t[0], t[2])}
        if g.xtop not in occ:
            g.xtop = None
        return g


def errors(triples, top, xtop, rm):
    """reference Model.errors as {context: [messages]} (C16)."""
    exp = collections.defaultdict(list)
    T = list(triples)
    srcs = {t[0] for t in T}
    if not T:
        exp[None].append('graph is empty')
        return dict(exp)
    for q in T:
        if not rm.has_role(q[1]):
            exp[q].append('invalid role')
    if not top:
        exp[None].append('top is not set')
    elif top not in srcs:
        exp[None].append('top is not a variable in the graph')
    else:
        adj = collections.defaultdict(set)
        for a, r, b in T:
            if r != rm.concept_role and b in srcs:
                adj[a].add(b)
                adj[b].add(a)
        seen = {top}
        ag = [top]
        while ag:
            c = ag.pop()
            for n in adj[c]:
                if n not in seen:
                    seen.add(n)
                    ag.append(n)
        for q in T:
            if q[0] not in seen:
                exp[q].append('unreachable')
    return dict(exp)
