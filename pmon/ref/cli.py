"""Reference pipeline of the penman command (C20): our own composition, in the
order docs/command.rst documents, of *library* calls - parse, canonicalise,
interpret, reify, dereify, reify attributes, indicate branches,
reconfigure-or-configure (with the model), rearrange, relabel, format /
format_triples.  It does not import penman.__main__."""
import penman
from penman import layout, transform


def sort_key(names, model):
    """names from the command line -> (key function, attributes_first)"""
    table = {
        'random': 'random_order', 'canonical': 'canonical_order',
        'alphanumeric': 'alphanumeric_order', 'inverted-last': 'is_role_inverted',
        'original': 'original_order',
    }
    funcs = []
    af = False
    for n in names:
        if n == 'attributes-first':
            af = True
        else:
            funcs.append(getattr(model, table[n]))

    def key(role):
        return [f(role) for f in funcs]
    return key, af


def pipeline(text_or_lines, model, o):
    """-> list of output texts, one per input graph (error-N metadata of
    --check not included; that clause is decided separately)."""
    outs = []
    for t in penman.iterparse(text_or_lines):
        if o.get('canonicalize_roles'):
            t = transform.canonicalize_roles(t, model)
        g = layout.interpret(t, model)
        if o.get('reify_edges'):
            g = transform.reify_edges(g, model)
        if o.get('dereify_edges'):
            g = transform.dereify_edges(g, model)
        if o.get('reify_attributes'):
            g = transform.reify_attributes(g)
        if o.get('indicate_branches'):
            g = transform.indicate_branches(g, model)
        if o.get('triples'):
            ind = o.get('indent', -1)
            styles = [True] if ind not in (None, 0) else ([False] if ind is None else [True, False])
            outs.append([penman.format_triples(g.triples, indent=s) for s in styles])
            continue
        if o.get('reconfigure'):
            key, _ = sort_key(o['reconfigure'], model)
            tree = layout.reconfigure(g, model=model, key=key)
        else:
            tree = layout.configure(g, model=model)
        if o.get('rearrange'):
            key, af = sort_key(o['rearrange'], model)
            layout.rearrange(tree, key=key, attributes_first=af)
        if o.get('make_variables'):
            tree.reset_variables(o['make_variables'])
        outs.append([penman.format(tree, indent=o.get('indent', -1), compact=bool(o.get('compact')))])
    return outs


def match_output(out, expected):
    """out == e1 sep e2 sep ... en '\\n' with every sep in {'\\n', '\\n\\n'} and
    each ei one of the alternatives expected[i]; returns (None or a reason,
    the list of matched graph texts)."""
    pos = 0
    texts = []
    for i, alts in enumerate(expected):
        if i:
            if out.startswith('\n\n', pos):
                pos += 2
            elif out.startswith('\n', pos):
                pos += 1
            else:
                return f'graph {i}: missing separator at offset {pos}', texts
            # prefer the longest separator but allow backtracking below
        hit = None
        for a in alts:
            if out.startswith(a, pos):
                hit = a
                break
        if hit is None and i and out[pos - 1] == '\n' and out[pos - 2:pos] == '\n\n':
            # maybe the separator was a single newline and the text begins with '\n'
            pos -= 1
            for a in alts:
                if out.startswith(a, pos):
                    hit = a
                    break
        if hit is None:
            return f'graph {i}: output {out[pos:pos + 200]!r} != expected {alts[0][:200]!r}', texts
        pos += len(hit)
        texts.append(hit)
    rest = out[pos:]
    if expected and rest != '\n':
        return f'trailing output {rest[:200]!r} after {len(expected)} graphs', texts
    if not expected and rest != '':
        return f'output {rest[:200]!r} for empty input', texts
    return None, texts


def strip_error_meta(text):
    return '\n'.join(ln for ln in text.split('\n') if not ln.startswith('# ::error-'))
