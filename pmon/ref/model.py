"""Reference notion of a semantic model (DESIGN 3.2), independent of
penman/model.py: a model *defines* role r iff some role pattern, the top role
or the concept role full-matches r; r is *inverted* iff it ends in '-of' and
is not defined."""
import re


class RefModel:
    def __init__(self, roles=(), normalizations=None, reifications=(),
                 top_role=':TOP', concept_role=':instance', noop=False, name='model'):
        self.name = name
        self.roles = list(roles)
        self.pats = self.roles + [top_role, concept_role]
        self.normalizations = dict(normalizations or {})
        self.reifications = [tuple(r) for r in (reifications or ())]
        self.top_role = top_role
        self.concept_role = concept_role
        self.noop = noop
        self._cache = {}

    @classmethod
    def from_penman(cls, m, name=None):
        reifs = []
        for role, lst in m.reifications.items():
            for concept, src, tgt in lst:
                reifs.append((role, concept, src, tgt))
        return cls(roles=list(m.roles), normalizations=m.normalizations,
                   reifications=reifs, top_role=m.top_role, concept_role=m.concept_role,
                   noop=type(m).__name__ == 'NoOpModel', name=name or type(m).__name__)

    # -- role algebra
    def defines(self, role):
        r = self._cache.get(role)
        if r is None:
            r = any(_full(p, role) for p in self.pats)
            self._cache[role] = r
        return r

    def inverted(self, role):
        return role.endswith('-of') and not self.defines(role)

    def has_role(self, role):
        return self.defines(role) or (role.endswith('-of') and self.defines(role[:-3]))

    def invert_role(self, role):
        return role[:-3] if self.inverted(role) else role + '-of'

    def deinverts(self):
        return not self.noop

    def canon_role(self, role):
        """Expected canonicalisation for a role written base + k*'-of' where the
        caller knows base and k; here computed structurally: strip pairs of
        inversions while the role is not defined."""
        if not role.startswith(':'):
            role = ':' + role
        while not self.defines(role) and role.endswith('-of-of') and not self.defines(role[:-3]):
            role = role[:-6]
        return self.normalizations.get(role, role)

    # -- reification
    def reifiable(self, role):
        return any(r[0] == role for r in self.reifications)

    def first_reification(self, role):
        for r in self.reifications:
            if r[0] == role:
                return r[1:]
        return None

    def dereifications(self, concept):
        return [(r[0], r[2], r[3]) for r in self.reifications if r[1] == concept]

    def dereifiable(self, concept):
        return any(r[1] == concept for r in self.reifications)

    def unambiguous(self, role):
        """DESIGN C11: with the first reification (c,s,t) of role, exactly one
        entry of c's dereification list matches (s,t) directly and none
        matches it swapped, and that entry is for *role* itself."""
        fr = self.first_reification(role)
        if fr is None:
            return False
        c, s, t = fr
        direct = [d for d in self.dereifications(c) if d[1] == s and d[2] == t]
        swapped = [d for d in self.dereifications(c) if d[1] == t and d[2] == s]
        return len(direct) == 1 and not swapped and direct[0][0] == role and s != t


class RefInvModel(RefModel):
    """Reference for a user subclass of Model with another inversion convention: a role is
    inverted iff it is spelled ':inv-X', and inverting toggles that prefix (roles ending in
    '-of' are ordinary roles).  The library must get there through the overridable methods
    is_role_inverted / invert_role only."""

    def inverted(self, role):
        return role.startswith(':inv-')

    def invert_role(self, role):
        return ':' + role[5:] if role.startswith(':inv-') else ':inv-' + role[1:]

    def has_role(self, role):          # Model.has_role hard-codes the -of rule: not claimed
        raise NotImplementedError

    def canon_role(self, role):
        raise NotImplementedError


def _full(pattern, role):
    try:
        return re.fullmatch(pattern, role) is not None
    except re.error:
        return pattern == role
