"""The AMR model as *documented* (docs/api/penman.models.amr.rst of the tree under test): the
role inventory, the role normalisations and the reification table are read from the three code
blocks of that page, not from penman/models/amr.py, so that the reference for the AMR model
does not inherit a wrong entry of the library's own table.  Returns None when the page is not
there or does not have the three blocks (the caller then falls back to the library's table and
counts it; never a violation by itself)."""
import os
import re


def load(repo):
    path = os.path.join(repo, 'docs', 'api', 'penman.models.amr.rst')
    try:
        text = open(path, encoding='utf-8').read()
    except OSError:
        return None
    m = re.search(r'^Roles\n-+\n(.*?)^Role Normalizations\n-+\n(.*?)^Reifications\n-+\n(.*)\Z', text, flags=re.S | re.M)
    if not m:
        return None
    roles = re.findall(r'^\s*"(:[^"]+)"\s*:\s*\{', m.group(1), flags=re.M)
    norms = dict(re.findall(r'^\s*"(:[^"]+)"\s*:\s*"(:[^"]+)"', m.group(2), flags=re.M))
    reifs = [tuple(x) for x in re.findall(r'\[\s*"([^"]+)"\s*,\s*"([^"]+)"\s*,\s*"([^"]+)"\s*,\s*"([^"]+)"\s*\]', m.group(3))]
    if len(roles) < 20 or not norms or len(reifs) < 10:
        return None
    return {'roles': roles, 'normalizations': norms, 'reifications': reifs}
