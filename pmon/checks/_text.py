"""Shared oracle code for the text-level properties (C07, C08)."""
import sys

import penman
from penman import _lexer as X
from penman.exceptions import DecodeError

from pmon import probe
from pmon.ref import lexer as R


def _ref(fn, *a):
    lim = sys.getrecursionlimit()
    sys.setrecursionlimit(max(lim, 20000))
    try:
        return ('ok', fn(*a))
    except R.Reject as r:
        return ('rej', r.lineno, r.offset)
    finally:
        sys.setrecursionlimit(lim)


def _real(ctx, clause, fn, *a, n=None):
    ok, val = ctx.call(fn, *a, allowed=(DecodeError,), clause=clause, n=n)
    if ok:
        return ('ok', val)
    if isinstance(val, DecodeError):
        return ('rej', val.lineno, val.offset)
    return ('exc', type(val).__name__)


def check_parsers(ctx, s, budget=False, containers=False):
    """parse / iterparse / parse_triples on string *s* against the reference
    recogniser.  Returns number of accepted results (for non-triviality)."""
    n = len(s) if budget else None
    acc = [0]

    def do_parse():
        got = _real(ctx, 'parse', lambda x: _tree(penman.parse(x)), s, n=n)
        exp = _ref(lambda x: R.ref_parse(x), s)
        if got[0] != 'exc' and got != _norm(exp):
            ctx.fail('parse!=reference', mech=f'{got[0]}-vs-{exp[0]}',
                     detail={'input': s[:300], 'got': repr(got)[:400], 'reference': repr(_norm(exp))[:400]},
                     payload=['str', {'s': s}])
        acc[0] += got[0] == 'ok'

    def do_iterparse():
        got = _real(ctx, 'iterparse', lambda x: [_tree(t) for t in penman.iterparse(x)], s, n=n)
        exp = _ref(lambda x: [(nd, m) for nd, m in R.ref_iterparse(x)], s)
        if got[0] != 'exc' and got != _norm(exp):
            ctx.fail('iterparse!=reference', mech=f'{got[0]}-vs-{exp[0]}',
                     detail={'input': s[:300], 'got': repr(got)[:400], 'reference': repr(_norm(exp))[:400]},
                     payload=['str', {'s': s}])
        acc[0] += got[0] == 'ok' and bool(got[1])

    def do_triples():
        got = _real(ctx, 'parse_triples', penman.parse_triples, s, n=n)
        exp = _ref(R.ref_parse_triples, s)
        if got[0] != 'exc' and got != exp:
            ctx.fail('parse_triples!=reference', mech=f'{got[0]}-vs-{exp[0]}',
                     detail={'input': s[:300], 'got': repr(got)[:400], 'reference': repr(exp)[:400]},
                     payload=['str', {'s': s}])
        acc[0] += got[0] == 'ok'

    # the three entry points share the lexer: call them in a data-dependent order so that
    # state leaking from one call into the next (caches keyed too coarsely) cannot hide
    steps = [do_parse, do_iterparse, do_triples]
    k = (len(s) + (ord(s[0]) if s else 0)) % 3
    for f in steps[k:] + steps[:k]:
        f()
    accepted = acc[0]
    if containers:
        # the codec methods and the list-of-lines presentation must agree
        c = penman.PENMANCodec()
        got2 = _real(ctx, 'codec.iterparse', lambda x: [_tree(t) for t in c.iterparse(x)],
                     R.split_lines(s))
        exp2 = _ref(lambda x: [(nd, m) for nd, m in R.ref_iterparse(x)], R.split_lines(s))
        if got2[0] != 'exc' and got2 != _norm(exp2):
            ctx.fail('iterparse(lines)!=reference', mech=f'{got2[0]}-vs-{exp2[0]}',
                     detail={'input': s[:300], 'got': repr(got2)[:400], 'reference': repr(exp2)[:400]},
                     payload=['str', {'s': s}])
    return accepted


def _tree(t):
    return (t.node, dict(t.metadata))


def _norm(exp):
    if exp[0] == 'ok':
        v = exp[1]
        if isinstance(v, list):
            return ('ok', [(nd, dict(m)) for nd, m in v])
        return ('ok', (v[0], dict(v[1])))
    return exp


_lex = None


def check_lexer(ctx, s, as_lines=False):
    """lex() in both patterns against the reference lexer and the tiling laws.
    Returns the number of tokens (graph pattern)."""
    global _lex
    if _lex is None:
        _lex = probe.original(X.lex)
    ntok = 0
    # the two pattern objects are private names: looked up defensively (DESIGN 2.7); without them
    # the graph pattern is still reachable as lex()'s default and the triple pattern through
    # parse_triples (C07)
    pats = [(False, getattr(X, 'PENMAN_RE', None))]
    if getattr(X, 'TRIPLE_RE', None) is not None:
        pats.append((True, X.TRIPLE_RE))
    else:
        ctx.count('triple_pattern_unavailable')
    for triple, pat in pats:
        inputs = [('str', s)]
        if as_lines:
            lines = R.split_lines(s)
            inputs.append(('lines', lines))
            inputs.append(('lines+nl', [ln + '\n' for ln in lines]))
        for how, inp in inputs:
            ref_lines = R.split_lines(inp) if isinstance(inp, str) else inp
            ok, toks = ctx.call(lambda: list(_lex(inp, pattern=pat)), clause='lex')
            if not ok:
                continue
            d = probe.tokens_disagreement(toks, ref_lines, triple)
            if d:
                ctx.fail('lex!=reference', mech=('triple:' if triple else 'graph:') + d.split()[0],
                         detail={'input': s[:300], 'presentation': how, 'diff': d[:600]},
                         payload=['str', {'s': s}])
            d = coverage_disagreement(toks, ref_lines)
            if d:
                ctx.fail('lex:uncovered-nonblank', mech=('triple:' if triple else 'graph:') + 'cover',
                         detail={'input': s[:300], 'presentation': how, 'diff': d[:600]},
                         payload=['str', {'s': s}])
            if not triple and how == 'str':
                ntok = len(toks)
    # the iterator protocol delivers every token exactly once however it is consumed
    if ntok >= 3 and len(s) % 4 == 0:
        ok, seq = ctx.call(_mixed_consumption, _lex, s, clause='TokenIterator')
        ok2, ref_seq = ctx.call(lambda: [(t.type, t.text, t.lineno, t.offset) for t in _lex(s)], clause='lex')
        if ok and ok2 and seq != ref_seq:
            ctx.fail('TokenIterator:tokens-repeated-or-lost', detail={'input': s[:300], 'got': repr(seq)[:400],
                                                                      'want': repr(ref_seq)[:400]},
                     payload=['str', {'s': s}])
    # default pattern argument == graph pattern
    ok, toks = ctx.call(lambda: [(t.type, t.text, t.lineno, t.offset) for t in _lex(s)], clause='lex')
    ok2, toks2 = ctx.call(lambda: [(t.type, t.text, t.lineno, t.offset)
                                   for t in _lex(s, pattern=getattr(X, 'PENMAN_RE', None))], clause='lex')
    if ok and ok2 and toks != toks2:
        ctx.fail('lex:default-pattern', detail={'input': s[:300]}, payload=['str', {'s': s}])
    return ntok


def _mixed_consumption(lex, s):
    """consume a token stream partly by a for-loop that breaks, then by peek/next/accept/expect"""
    it = lex(s)
    out = []
    n = 0
    for t in it:
        out.append(t)
        n += 1
        if n == 2:
            break
    if it:
        out.append(it.next())
    while it:
        t = it.peek()
        got = it.accept(t.type) if len(out) % 2 else it.expect(t.type)
        out.append(got)
    return [(t.type, t.text, t.lineno, t.offset) for t in out]


BLANKS = ' \t\r\n\v\f'


def coverage_disagreement(toks, ref_lines):
    """every character outside tokens is one of the six ASCII blanks
    (stated on the tokens alone, independent of the reference lexer)"""
    by_line = {}
    for t in toks:
        by_line.setdefault(t.lineno, []).append(t)
    for ln, line in enumerate(ref_lines, 1):
        pos = 0
        for t in by_line.get(ln, []):
            gap = line[pos:t.offset]
            if gap.strip(BLANKS):
                return f'line {ln}: characters {gap!r} at {pos} not covered by any token'
            pos = t.offset + len(t.text)
        gap = line[pos:]
        if gap.strip(BLANKS):
            return f'line {ln}: trailing characters {gap!r} at {pos} not covered'
    return None
