"""C16 - model checking is sound and complete, and --check reports it in the exit status.

Events that refute: Model.errors(g) differing (as a mapping triple -> list of
messages) from the reference report; a decoded text with a non-empty top node
receiving anything but role errors; `penman --check` exiting zero although
some graph of some input has an error (or non-zero although none has), or an
offending triple missing from the error-N metadata of its own graph."""
import io
import os
import subprocess
import sys
import tempfile

import penman
from penman.graph import Graph
from penman.tree import Tree

from pmon.gen import trees as T, models as M, graphs as G
from pmon.ref.graph import errors as ref_errors, colon
from pmon.checks import _trees

ID = 'C16'


def _repo():
    from pmon import core
    return core.REPO


RULE = ('Model.errors: triple lists over 3 sources x 6 roles x 6 targets x explicit tops (exhaustive '
        'length<=2; random to 8 triples incl. 2-5 unreachable components and concepts spelled like '
        'variables) under default, AMR, mini-AMR and random tables, compared as an unordered mapping '
        'with the reference report; decoded WF-T texts (role errors only). CLI: 1-4 input files of '
        '0-3 graphs each, compliant and not, in every order, also via stdin, run in-process through '
        'penman.__main__.main and (sampled) as real `python -m penman` subprocesses, also with --quiet; '
        'graphs with 255/256/257/512 offending triples and 2x128 ... 256x1 offending graphs as real '
        'processes (the exit status is a verdict, not a counter). Non-trivial: '
        'the report is non-empty / the input has >=2 graphs.')
ANCHORS = ['penman.model:Model.errors', 'penman.model:_dfs', 'penman.model:Model.has_role',
           'penman.__main__:_check', 'penman.__main__:process', 'penman.__main__:main']
PROBES = {'C17': 5}
MIN_EVAL = {'quick': 10000, 'thorough': 150000}
REQUIRED_COUNTERS = ['errors_calls', 'unreachable_seen', 'invalid_role_seen', 'cli_runs', 'cli_multi_file',
                     'cli_subprocess', 'cli_exit_nonzero', 'cli_exit_zero', 'cli_quiet', 'cli_many_errors']
SRC = ['a', 'b', 'c', 'i']
TGT = ['a', 'b', 'c', 'i', 'x', None]
ROLES = [':instance', ':ARG0', ':ARG0-of', ':foo', ':foo-of', ':consist-of', ':mod', ':ARG0-of-of',
         ':ARG10', ':ARG10-of', ':mode', ':model-of', ':q1x', ':q1x-of', ':op1-x-of', ':x-of', ':w-of-of',
         ':consist-of-of', ':consist-of-of-of', ':mod-of-of-of', ':TOP', ':op1', ':TOP-of', ':instance-of']
MODELS_E = ['default', 'amr', 'mini', 'rand1', 'rand2', 'noop', 'miniroot', 'prefix', 'both']
GOOD = [':ARG0', ':ARG1', ':mod', ':op1', ':polarity', ':consist-of', ':time']
BADR = [':foo', ':stroke', ':ARG10', ':consist', ':foo-of-of', ':ARG0-of-of', ':ARG1-of-of-of', ':consist-of-of-of']


def cases(ctx):
    q = ctx.tier == 'quick'
    import itertools
    yield 'exh', {'maxlen': 2, 'mod': ctx.nshards, 'rem': ctx.shard}
    n = 3000 if q else 50000
    ncli = 120 if q else 2500
    # graphs with very many offending triples, and many offending graphs (the exit status is a
    # verdict, not a counter: 256 errors are still an error)
    many = [(255, 1), (256, 1), (257, 1), (512, 1), (128, 2), (64, 4), (1, 256), (2, 128)]
    if not q:
        many += [(1024, 1), (768, 1), (1, 512), (85, 3), (51, 5), (16, 16), (4, 64), (4096, 1)]
    for j, (k, copies) in enumerate(many):
        if j % ctx.nshards == ctx.shard:
            yield 'climany', {'k': k, 'copies': copies}
    # connected graphs whose connection is long or wide (chains, rings, stars, grids of thousands of nodes):
    # nothing is unreachable
    for j, shape in enumerate(['chain', 'ring', 'star', 'ladder', 'backchain', 'dense']):
        if j % ctx.nshards == ctx.shard:
            yield 'bigshape', {'shape': shape, 'n': 1500 if q else 6000}
    ctx.new_phase()
    for i in range(n):
        if not ctx.time_left():
            break
        yield 'rand', {'i': i}
        if i < ncli:
            yield 'cli', {'i': i}


def check_errors(ctx, triples, top, mname, det):
    _, model, rm, _ = M.get(mname)
    g = Graph(triples, top=top)
    ctx.count('errors_calls')
    ok, e = ctx.call(model.errors, g, clause='errors')
    if not ok:
        return None
    T_ = [(s, colon(r), t) for s, r, t in triples]
    exp = ref_errors(T_, g.top, top, rm)
    if any('unreachable' in v for v in exp.values()):
        ctx.count('unreachable_seen')
    if any('invalid role' in v for v in exp.values()):
        ctx.count('invalid_role_seen')
    got = {k: sorted(v) for k, v in dict(e).items()}
    want = {k: sorted(v) for k, v in exp.items()}
    if got != want:
        extra = {k: v for k, v in got.items() if want.get(k) != v}
        miss = {k: v for k, v in want.items() if got.get(k) != v}
        kinds = sorted({m for v in list(extra.values()) + list(miss.values()) for m in v})
        ctx.fail('errors!=reference', mech='/'.join(kinds)[:60],
                 detail=dict(det, model=mname, got_only=repr(extra)[:400], reference_only=repr(miss)[:400]))
    # the report does not depend on when it is asked
    ok, e2 = ctx.call(model.errors, g, clause='errors')
    if ok and list(dict(e2).items()) != list(dict(e).items()):
        ctx.fail('errors:unstable', detail=det)
    return exp


def oracle(ctx, kind, p):
    if kind == 'exh':
        import itertools
        roles_exh = [':instance', ':ARG0', ':ARG0-of', ':foo', ':consist-of', ':ARG0-of-of', ':consist-of-of', ':TOP-of', ':mod']
        pool = [(s, r, t) for s in SRC[:3] for r in roles_exh for t in TGT]
        idx = -1
        for L in range(0, p['maxlen'] + 1):
            for triples in itertools.product(pool, repeat=L):
                idx += 1
                if idx % p['mod'] != p['rem']:
                    continue
                for top in (None, 'a', 'zz'):
                    for mname in ('default', 'amr'):
                        ctx.current = ['g', {'triples': [list(t) for t in triples], 'top': top, 'model': mname}]
                        exp = check_errors(ctx, list(triples), top, mname, {'triples': list(triples), 'top': top})
                        ctx.enumerated(nontrivial=bool(exp))
        ctx.exhaustive[f"triple-lists len<={p['maxlen']} over 162 triples x 3 tops x 2 models (shard slice)"] = idx + 1
    elif kind == 'g':
        exp = check_errors(ctx, [tuple(t) for t in p['triples']], p['top'], p['model'], p)
        ctx.case(p, True)
    elif kind == 'rand':
        rng = ctx.rng('rand', p['i'])
        mname = MODELS_E[(p['i'] // 3) % len(MODELS_E)]     # (independent of the case kind i % 3 below)
        _, model, rm, _ = M.get(mname)
        k = p['i'] % 3
        if k == 0:
            n = rng.randrange(0, 9)
            src = SRC + ([''] if p['i'] % 7 == 0 else [])      # a falsy variable: "top is not set"
            triples = [(rng.choice(src), rng.choice(ROLES), rng.choice(TGT)) for _ in range(n)]
            top = rng.choice([None, None, 'a', 'b', 'zz'])
        elif k == 1:
            # several components, each internally connected; concepts spelled like variables
            comps = rng.randrange(2, 6)
            triples = []
            names = [f'{c}{j}' for c in 'abcde'[:comps] for j in range(rng.randrange(1, 4))]
            rng.shuffle(names)
            byc = {}
            for nme in names:
                byc.setdefault(nme[0], []).append(nme)
            for c, vs in byc.items():
                for j, v in enumerate(vs):
                    triples.append((v, ':instance', rng.choice(names + ['thing', None])))
                    if j:
                        s, t = (vs[rng.randrange(j)], v) if rng.random() < .5 else (v, vs[rng.randrange(j)])
                        triples.append((s, rng.choice([':ARG0', ':ARG1-of', ':foo']), t))
            rng.shuffle(triples)
            top = rng.choice([None, names[0], names[-1]])
        else:
            node = T.rand_tree(rng, rm, extra_roles=BADR if rng.random() < .5 else ())
            if not _trees.wellformed(node, rm):
                return
            s = penman.format(Tree(node))
            ok, g = ctx.call(penman.decode, s, model=model, clause='decode')
            if not ok:
                return
            triples, top = list(g.triples), g.top
            ctx.current = ['g', {'triples': [list(t) for t in triples], 'top': top, 'model': mname}]
            exp = check_errors(ctx, triples, top, mname, {'text': s[:300]})
            if exp is not None:
                other = [m for v in exp.values() for m in v if m != 'invalid role']
                ok, e = ctx.call(model.errors, g, clause='errors')
                if ok:
                    bad = [m for v in e.values() for m in v if m != 'invalid role']
                    if bad or None in e:
                        ctx.fail('decoded-text:non-role-error', mech=str(sorted(set(bad)))[:40],
                                 detail={'text': s[:300], 'errors': repr(e)[:400], 'model': mname})
            ctx.case(ctx.current, bool(exp))
            return
        ctx.current = ['g', {'triples': [list(t) for t in triples], 'top': top, 'model': mname}]
        exp = check_errors(ctx, triples, top, mname, {'triples': triples, 'top': top})
        ctx.case(ctx.current, bool(exp))
        if ctx.want_sample() and exp and len(exp) >= 3:
            ctx.sample({'triples': triples, 'top': top, 'model': mname,
                        'reference_report': {repr(k): v for k, v in exp.items()}})
    elif kind == 'cli':
        run_cli_case(ctx, p)
    elif kind == 'bigshape':
        n, shape = p['n'], p['shape']
        vs = [f'v{i}' for i in range(n)]
        rng = ctx.rng('bigshape', shape)
        if shape == 'chain':
            edges = [(vs[i], ':ARG0', vs[i + 1]) for i in range(n - 1)]
        elif shape == 'backchain':
            edges = [(vs[i + 1], ':ARG1', vs[i]) for i in range(n - 1)]       # every edge points towards the top
        elif shape == 'ring':
            edges = [(vs[i], ':ARG0', vs[(i + 1) % n]) for i in range(n)]
        elif shape == 'star':
            edges = [(vs[0], ':op%d' % i, vs[i]) for i in range(1, n)]
        elif shape == 'ladder':
            edges = [(vs[i], ':ARG0', vs[i + 2]) for i in range(n - 2)] + [(vs[0], ':ARG1', vs[1])]
        else:
            vs = vs[:60]
            n = 60
            edges = sorted({(rng.choice(vs), rng.choice([':ARG0', ':ARG1', ':mod']), rng.choice(vs)) for _ in range(400)})
            edges += [(vs[i], ':ARG2', vs[i + 1]) for i in range(n - 1)]
        triples = [(v, ':instance', 'thing') for v in vs] + edges
        for order in ('given', 'shuffled'):
            if order == 'shuffled':
                rng.shuffle(triples)
            _, model, rm, _ = M.get('amr')
            g = Graph(triples, top=vs[0])
            ok, e = ctx.call(model.errors, g, clause='errors(big shape)')
            ctx.count('errors_calls')
            ctx.count('big_shapes')
            if ok and e:
                kinds = sorted({m_ for v_ in e.values() for m_ in v_})
                ctx.fail('errors!=reference', mech='big-shape:' + '/'.join(kinds)[:40],
                         detail={'shape': shape, 'nodes': n, 'order': order, 'reported': len(e),
                                 'first': repr(list(e.items())[:2])[:300]})
        ctx.case(p, True)
    elif kind == 'climany':
        k, copies = p['k'], p['copies']
        one = '(a / alpha ' + ' '.join(f':attr{j} {j}' for j in range(k)) + ')'
        text = '(g / good)\n\n' + '\n\n'.join(one.replace('(a ', f'(a{c} ') for c in range(copies)) + '\n\n(h / fine)\n'
        d = tempfile.mkdtemp(prefix='pmon-c16-')
        try:
            path = os.path.join(d, 'many.txt')
            with open(path, 'w', encoding='utf-8') as fh:
                fh.write(text)
            env = dict(os.environ, PYTHONHASHSEED='0', PYTHONPATH=_repo())
            for how, argv, inp in (('file', ['--check', path], None), ('stdin', ['--check'], text),
                                   ('file --quiet', ['--quiet', '--check', path], None)):
                r = subprocess.run([sys.executable, '-m', 'penman'] + argv, input=inp, capture_output=True,
                                   text=True, env=env, cwd=d, timeout=300, encoding='utf-8')
                ctx.count('cli_many_errors')
                ctx.count('cli_subprocess')
                if r.returncode == 0:
                    ctx.fail('cli:exit-status', mech='zero-despite-error',
                             detail={'how': 'subprocess ' + how, 'offending_triples_per_graph': k,
                                     'offending_graphs': copies, 'exit': r.returncode, 'err': r.stderr[-300:]})
                if 'quiet' not in how:
                    rec = sum(1 for ln in r.stdout.splitlines() if ln.startswith('# ::error-'))
                    if rec != k * copies:
                        ctx.fail('cli:offending-triple-not-recorded', mech='count',
                                 detail={'how': how, 'recorded': rec, 'offending': k * copies})
            code, _out = run_main(['--check', path], None)
            ctx.count('cli_runs')
            if code == 0:
                ctx.fail('cli:exit-status', mech='zero-despite-error',
                         detail={'how': 'in-process', 'offending_triples_per_graph': k, 'offending_graphs': copies})
        finally:
            import shutil
            shutil.rmtree(d, ignore_errors=True)
        ctx.case(p, True)


# ---------------------------------------------------------------- CLI

def run_main(argv, stdin_text):
    """penman.__main__.main() in-process -> (exit status, stdout)"""
    import penman.__main__ as PM
    old = sys.argv, sys.stdin, sys.stdout, sys.stderr
    out = io.StringIO()
    sys.argv = ['penman'] + argv
    sys.stdin = io.StringIO(stdin_text or '')
    sys.stdout = out
    sys.stderr = io.StringIO()
    try:
        try:
            PM.main()
            code = 0
        except SystemExit as e:
            code = e.code if isinstance(e.code, int) else (0 if e.code is None else 1)
    finally:
        sys.argv, sys.stdin, sys.stdout, sys.stderr = old
    return code, out.getvalue()


def run_cli_case(ctx, p):
    rng = ctx.rng('cli', p['i'])
    mflag, mname = [('--amr', 'amr'), ('--amr', 'amr'), (None, 'default'), ('--noop', 'noop')][p['i'] % 4]
    _, model, rm, _ = M.get(mname)
    nfiles = rng.randrange(1, 5)
    texts = []
    per_graph = []
    expect_bad = False
    for fi in range(nfiles):
        gs = []
        for gi in range(rng.randrange(0, 4)):
            compliant = rng.random() < 0.65
            roles = GOOD if compliant else GOOD + BADR
            node = T.rand_tree(rng, rm, roles=roles + ([':TOP-of', ':instance-of'] if rng.random() < .2 else []),
                               p_aln=0, p_inv=0.2, n_nodes=rng.choice([1, 2, 3, 4]))
            s = penman.format(Tree(node))
            if rng.random() < 0.08:
                s = '()'                 # an empty node: its only error is a graph-level one
            g = penman.decode(s, model=model)
            exp = ref_errors(g.triples, g.top, g.top, rm)
            if any(tr for tr in exp) and rng.random() < 0.4:
                # output of an earlier --check run fed back: stale error-N lines on a graph that
                # (still) has offending triples (on a compliant graph stale lines simply stay)
                s = '# ::error-1 (x :old y) invalid role\n# ::error-2 stale\n' + s
            per_graph.append(([tr for tr in exp if tr], bool(exp)))
            expect_bad |= bool(exp)
            gs.append(s)
        texts.append('\n\n'.join(gs) + '\n')
    d = tempfile.mkdtemp(prefix='pmon-c16-')
    try:
        files = []
        for fi, txt in enumerate(texts):
            path = os.path.join(d, f'f{fi}.txt')
            with open(path, 'w', encoding='utf-8') as fh:
                fh.write(txt)
            files.append(path)
        use_stdin = nfiles == 1 and rng.random() < 0.5
        as_triples = p['i'] % 5 == 4       # --check with --triples: the verdict is the same, the output is not PENMAN
        argv = ([mflag] if mflag else []) + ['--check'] + (['--triples'] if as_triples else []) + ([] if use_stdin else files)
        det = {'argv': argv[:2], 'files': texts, 'stdin': use_stdin, 'expect_error': expect_bad}
        ctx.current = ['cli', p]
        runs = [('in-process', run_main(argv, texts[0] if use_stdin else None))]
        if p['i'] % 6 == 0:
            env = dict(os.environ, PYTHONHASHSEED=str(p['i'] % 3), PYTHONPATH=_repo())
            r = subprocess.run([sys.executable, '-m', 'penman'] + argv,
                               input=texts[0] if use_stdin else None, capture_output=True,
                               text=True, env=env, cwd=d, timeout=120, encoding='utf-8')
            runs.append(('subprocess', (r.returncode, r.stdout)))
            ctx.count('cli_subprocess')
            # --quiet silences the output, never the verdict
            rq = subprocess.run([sys.executable, '-m', 'penman', '--quiet'] + argv,
                                input=texts[0] if use_stdin else None, capture_output=True,
                                text=True, env=env, cwd=d, timeout=120, encoding='utf-8')
            ctx.count('cli_quiet')
            if (rq.returncode != 0) != expect_bad or rq.stdout != '':
                ctx.fail('cli:exit-status(--quiet)',
                         mech='output' if rq.stdout else 'zero-despite-error' if expect_bad else 'nonzero-without-error',
                         detail=dict(det, how='subprocess --quiet', exit=rq.returncode, out=rq.stdout[:200],
                                     err=rq.stderr[-300:]))
        for how, (code, out) in runs:
            ctx.count('cli_runs')
            if nfiles > 1:
                ctx.count('cli_multi_file')
            ctx.count('cli_exit_nonzero' if code else 'cli_exit_zero')
            if (code != 0) != expect_bad:
                ctx.fail('cli:exit-status', mech='zero-despite-error' if expect_bad else 'nonzero-without-error',
                         detail=dict(det, how=how, exit=code))
            if as_triples:
                ctx.count('cli_check_with_triples')
                continue
            try:
                outg = list(penman.iterdecode(out, model=model))
            except Exception as e:
                ctx.fail('cli:unreadable-output', detail=dict(det, how=how, out=out[:300], exc=repr(e)))
                continue
            if len(outg) != len(per_graph):
                ctx.fail('cli:graph-count', detail=dict(det, how=how, got=len(outg), want=len(per_graph)))
                continue
            for g, (offenders, has_error) in zip(outg, per_graph):
                recorded = [v for k, v in g.metadata.items() if k.startswith('error-')]
                for tr in offenders:
                    c = '(%s)' % ' '.join(map(str, tr))
                    if not any(v.startswith(c) for v in recorded) and not ('::' in c and ('(' + c[1:]) in out):
                        # (a constant containing '::' makes the error line ambiguous to read back as
                        #  metadata; then the raw output line decides)
                        ctx.fail('cli:offending-triple-not-recorded',
                                 detail=dict(det, how=how, triple=tr, metadata=dict(g.metadata)))
                if not has_error and recorded:
                    ctx.fail('cli:error-recorded-on-compliant-graph',
                             detail=dict(det, how=how, metadata=dict(g.metadata)))
        if len(runs) == 2 and runs[0][1] != runs[1][1]:
            ctx.fail('cli:in-process!=subprocess', detail=dict(det, a=runs[0][1][1][:300], b=runs[1][1][1][:300]))
        ctx.case(texts, sum(len(x) > 1 for x in texts) >= 1 and len(per_graph) >= 2)
        if ctx.want_sample() and nfiles >= 2 and expect_bad:
            ctx.sample({'argv': argv[:2] + ['<%d files>' % nfiles], 'graphs_per_file': [t.count('\n\n') + 1 for t in texts],
                        'expected_exit_nonzero': expect_bad})
    finally:
        import shutil
        shutil.rmtree(d, ignore_errors=True)
