"""C18 - constant quoting, evaluation and typing are consistent with the notation.

Events that refute: a Python string x whose quote(x) is not read by the real
and by the reference lexer as exactly one STRING token covering it, does not
evaluate back to x, or is not typed STRING; quote(n) != quote(str(n));
quote(None) != '""'; an atom text whose evaluation raises anything but
ConstantError, returns int/float although it is not JSON number syntax (or a
str although it is), returns None for non-empty text, a bool, NaN or a
container; a type() that does not match the Python type of the evaluation."""
import itertools
import math
import re

from penman import constant
from penman import _lexer as X
from penman.exceptions import ConstantError

from pmon import probe
from pmon.gen import strings as S
from pmon.ref import lexer as R

ID = 'C18'
PYTEST_LAW = 'C18'     # also run /repo's own tests with this property's law attached
RULE = ('quote: exhaustive strings of length<=3 (quick) / <=4 (thorough) over the 19-character '
        'alphabet {a " \\ LF TAB CR NUL e-acute U+2028 ( ~ : / SP VT NEL} plus seeded random strings to '
        '200 characters incl. lone surrogates, numbers, None; evaluate/type: exhaustive atom texts of '
        'length<=4 (quick) / <=5 (thorough) over {0 1 - + . e E " a N n t [ { , ] \\} plus the '
        'special spellings true false null NaN Infinity -Infinity 1e400 -0 01 1. .5 ... Non-trivial: '
        'the string contains a quote, backslash or control character / the atom is a JSON number, '
        'quoted, or one of the special spellings.')
ANCHORS = ['penman.constant:quote', 'penman.constant:evaluate', 'penman.constant:type']
PROBES = {'C18': 0, 'C08': 0, 'C07': 0}
MIN_EVAL = {'quick': 50000, 'thorough': 1000000}
REQUIRED_COUNTERS = ['quoted', 'evaluated', 'int', 'float', 'constant_error', 'str']
NUM = re.compile(r'-?(0|[1-9][0-9]*)(\.[0-9]+)?([eE][+-]?[0-9]+)?')    # JSON number grammar: ASCII digits only
ATOM_ALPHA = ['0', '1', '-', '+', '.', 'e', 'E', '"', 'a', 'N', 'n', 't', '[', '{', ',', ']', '\\', '}']
QUOTE_ALPHA = ['a', '"', '\\', '\n', '\t', '\r', '\x00', '\u00e9', '\u2028', '(', '~', ':', '/', ' ',
               '\x0b', '\x85', 'u', 'n', '0']     # (escape letters and a hex digit: backslash+u, backslash+n ... as content)
EXTRA = ['true', 'false', 'null', 'NaN', 'Infinity', '-Infinity', '1e400', '-0', '01', '1.', '.5',
         '"\\u00e9"', '"\\x"', '[1]', '{"a":1}', '"a" "b"', '""', '"', '1e-400', '-1e400', 'True',
         'None', '0x10', '1_0', '+1', '1e5', '1E+5', '-0.0', '"\\ud800"', 'nan', 'inf', '\u0661', '\uff11\uff12', '\u00b2', '1\u0662', '[]', '{}', '[[]]', '"a\nb"', '-', '--1', '1e', '1e+', '0.', '-.5', '00', '"\\""', '"\\"',
         '9007199254740993', '-9007199254740993', '18446744073709551617', '123456789012345678901234567890',
         '9007199254740993.0', '0.1000000000000000055511151231257827', '1e22', '1e23', '4.35', '2.675e2',
         # integers that no double can hold (>= 2**1024), still far below the interpreter's 4300-digit limit (O4)
         '1' + '0' * 308, '9' * 400, '-' + '9' * 1000, '1' + '0' * 309 + '.5', '1' + '0' * 400 + 'e-400']
BATCH = 4000
NONTRIVIAL_CHARS = '"\\\n\t\r\x00\u2028\x0b\x85'


def cases(ctx):
    q = ctx.tier == 'quick'
    b = 0
    for L in range(0, 5 if q else 6):
        total = len(ATOM_ALPHA) ** L
        for start in range(0, total, BATCH):
            if ctx.mine(b):
                yield 'atoms', {'len': L, 'start': start, 'count': BATCH}
            b += 1
    for L in range(0, 4 if q else 5):
        total = len(QUOTE_ALPHA) ** L
        for start in range(0, total, BATCH):
            if ctx.mine(b):
                yield 'quotes', {'len': L, 'start': start, 'count': BATCH}
            b += 1
    yield 'extra', {}          # (every shard: one of them runs under another interpreter mode)
    n = 3000 if q else 40000
    ctx.new_phase()
    for i in range(n):
        if not ctx.time_left():
            break
        yield 'rand', {'i': i}


_lex = None


def check_quote(ctx, x):
    global _lex
    if _lex is None:
        _lex = probe.original(X.lex)
    ctx.count('quoted')
    det = {'x': repr(x)[:200]}
    ok, q = ctx.call(constant.quote, x, clause='quote')
    if not ok:
        return
    det['quoted'] = repr(q)[:200]
    want = '' if x is None else str(x)
    if not isinstance(q, str):
        ctx.fail('quote:type', detail=det)
        return
    ok, toks = ctx.call(lambda: [(t.type, t.text) for t in _lex(q)], clause='lex(quote(x))')
    if ok and toks != [('STRING', q)]:
        ctx.fail('quote:not-one-STRING-token(real lexer)', detail=dict(det, tokens=repr(toks)[:300]))
    rt = [(t[0], t[1]) for t in R.lex(q)]
    if rt != [('STRING', q)]:
        ctx.fail('quote:not-one-STRING-token(reference lexer)', detail=dict(det, tokens=repr(rt)[:300]))
    ok, v = ctx.call(constant.evaluate, q, allowed=(ConstantError,), clause='evaluate(quote(x))')
    if not ok or v != want or type(v) is not str:
        ctx.fail('evaluate(quote(x))!=x', detail=dict(det, evaluated=repr(v)[:200]))
    ok, ty = ctx.call(constant.type, q, allowed=(ConstantError,), clause='type(quote(x))')
    if not ok or tname(ty) != 'STRING':
        ctx.fail('type(quote(x))!=STRING', detail=dict(det, type=repr(ty)))
    if not isinstance(x, str):
        ok, q2 = ctx.call(constant.quote, want if x is not None else None, clause='quote')
        if x is None:
            if q != '""':
                ctx.fail('quote(None)!=""', detail=det)
        elif ok and q2 != q:
            ctx.fail('quote(n)!=quote(str(n))', detail=dict(det, other=q2))


def tname(ty):
    """the reported type as the name of one of the five documented, pairwise distinct datatypes
    (compared by name: two module constants that are aliases of one member are not two types)"""
    for n in ('SYMBOL', 'STRING', 'INTEGER', 'FLOAT', 'NULL'):
        if ty is getattr(constant, n, None) and getattr(ty, 'name', None) == n:
            return n
    return None


def check_atom(ctx, a):
    ctx.count('evaluated')
    det = {'atom': repr(a)[:200]}
    ok, v = ctx.call(constant.evaluate, a, allowed=(ConstantError,), clause='evaluate')
    res = 'ok' if ok else ('cerr' if isinstance(v, ConstantError) else 'exc')
    if res == 'exc':
        return False
    nontrivial = False
    if res == 'ok':
        m = NUM.fullmatch(a) if isinstance(a, str) else None
        if isinstance(v, bool) or isinstance(v, (list, dict, tuple, set)) or \
                (isinstance(v, float) and math.isnan(v) and not m):
            ctx.fail('evaluate:bool/NaN/container', mech=type(v).__name__, detail=dict(det, value=repr(v)))
        if m:
            nontrivial = True
            want_int = not (m.group(2) or m.group(3))
            if want_int != (type(v) is int) or (not want_int and type(v) is not float):
                ctx.fail('evaluate:number-type', detail=dict(det, value=repr(v)))
            ctx.count('int' if type(v) is int else 'float')
            # ... and it is *that* number: exact for integers of any size, the nearest double otherwise
            try:
                exact = int(a) if want_int else float(a)
            except (ValueError, OverflowError):
                exact = None
            if exact is not None and type(v) is type(exact) and not (v == exact or (v != v and exact != exact)):
                ctx.fail('evaluate:number-value', mech='int' if want_int else 'float',
                         detail=dict(det, value=repr(v), want=repr(exact)))
        elif a in ('', None):
            if v is not None:
                ctx.fail('evaluate:empty-not-None', detail=dict(det, value=repr(v)))
        else:
            if not isinstance(v, str):
                ctx.fail('evaluate:non-number-not-str', mech=type(v).__name__, detail=dict(det, value=repr(v)))
            ctx.count('str')
            if a.startswith('"'):
                nontrivial = True
    else:
        ctx.count('constant_error')
        nontrivial = True
    ok2, ty = ctx.call(constant.type, a, allowed=(ConstantError,), clause='type')
    if ok2:
        if res == 'ok':
            exp = {int: 'INTEGER', float: 'FLOAT', type(None): 'NULL'}.get(type(v))
            if exp is None:
                exp = 'STRING' if (isinstance(a, str) and len(a) >= 1 and a.startswith('"')
                                   and a.endswith('"')) else 'SYMBOL'
            if tname(ty) != exp:
                ctx.fail('type!=python-type-of-evaluate', detail=dict(det, value=repr(v), type=repr(ty)))
        else:
            ctx.fail('type:ok-but-evaluate-raises', detail=det)
    elif isinstance(ty, ConstantError) and res == 'ok':
        ctx.fail('type:raises-but-evaluate-ok', detail=det)
    return nontrivial


def oracle(ctx, kind, p):
    if kind == 'atoms':
        n = 0
        for a in S.batch(ATOM_ALPHA, p['len'], p['start'], p['count']):
            ctx.current = ['atom', {'a': a}]
            nt = check_atom(ctx, a)
            ctx.enumerated(nontrivial=nt)
            n += 1
        ctx.exhaustive[f"atoms len{p['len']}"] = ctx.exhaustive.get(f"atoms len{p['len']}", 0) + n
    elif kind == 'quotes':
        n = 0
        for x in S.batch(QUOTE_ALPHA, p['len'], p['start'], p['count']):
            ctx.current = ['quote', {'x': x}]
            check_quote(ctx, x)
            ctx.enumerated(nontrivial=any(c in x for c in NONTRIVIAL_CHARS))
            n += 1
            if ctx.want_sample() and len(x) == 3 and '"' in x and '\\' in x:
                ctx.sample({'x': x, 'quoted': constant.quote(x)})
        ctx.exhaustive[f"quote len{p['len']}"] = ctx.exhaustive.get(f"quote len{p['len']}", 0) + n
    elif kind == 'atom':
        check_atom(ctx, p['a'])
        ctx.case(p, True)
    elif kind == 'quote':
        check_quote(ctx, p['x'])
        ctx.case(p, True)
    elif kind == 'extra':
        for a in EXTRA + [None]:
            ctx.current = ['atom', {'a': a}]
            if a is None:
                ok, v = ctx.call(constant.evaluate, None, clause='evaluate(None)')
                if ok and v is not None:
                    ctx.fail('evaluate(None)!=None', detail={'value': repr(v)})
                ok, ty = ctx.call(constant.type, None, clause='type(None)')
                if ok and tname(ty) != 'NULL':
                    ctx.fail('type(None)!=NULL', detail={'type': repr(ty)})
            else:
                check_atom(ctx, a)
            ctx.enumerated(nontrivial=True)
        for x in [None, 0, 1, -1, 1.5, -0.0, 0.0, 1e300, 10 ** 30, True, 1.0, float('inf'), 7, 7.0, 1000.0, 1000,
                  False, 0, 2.0, 2, -3, -3.0, float('nan'), float('-inf')]:
            ctx.current = ['quote', {'x': repr(x)}]
            check_quote(ctx, x)
            ctx.enumerated(nontrivial=True)
    elif kind == 'rand':
        rng = ctx.rng('rand', p['i'])
        pool = QUOTE_ALPHA * 3 + S.UNI + list('abcxyz019') + ['\\n', '\\u00e9', '\\"', '\\\\']
        x = ''.join(rng.choice(pool) for _ in range(rng.randrange(0, 200)))
        ctx.current = ['quote', {'x': x}]
        check_quote(ctx, x)
        a = ''.join(rng.choice(ATOM_ALPHA + list('23456789') + ['e+', 'E-', '.0']) for _ in range(rng.randrange(1, 12)))
        ctx.current = ['atom', {'a': a}]
        nt = check_atom(ctx, a)
        if p['i'] % 5 == 0:
            # long numerals: integers beyond 2**53, many fraction digits, large exponents
            big = rng.choice(['', '-']) + str(rng.randrange(1, 10)) + ''.join(
                rng.choice('0123456789') for _ in range(rng.randrange(15, 40) if rng.random() < 0.8 else rng.randrange(300, 1200)))
            if rng.random() < 0.3:
                big += '.' + ''.join(rng.choice('0123456789') for _ in range(rng.randrange(1, 25)))
            if rng.random() < 0.2:
                big += rng.choice(['e', 'E']) + rng.choice(['', '+', '-']) + str(rng.randrange(0, 300))
            ctx.current = ['atom', {'a': big}]
            check_atom(ctx, big)
            ctx.count('long_numerals')
        ctx.case((x, a), True)
