"""C01 - text <-> tree is lossless under every formatting option.

Events that refute: a tree t and options o with parse(format(t, o)) != t or
different metadata; two option sets whose outputs differ in a non-blank token;
an accepted text s with F(F(s)) != F(s) for F = format . parse."""
import re

import penman
from penman.tree import Tree

from pmon.gen import trees as T, strings as S, models as M
from pmon.ref import lexer as R

ID = 'C01'
RULE = ('trees: (a) parser output on every accepted string of the exhaustive token-sequence corpus '
        '(22 tokens, length<=3 + seeded slices of length 4 quick / <=5 thorough, joined with blanks); (b) assembled trees: the '
        'WF-T generator plus missing targets, nested and top-level empty nodes, "(a /)", anonymous '
        'role, quoted strings containing ( ) / : ~ # and escapes, alignments on roles/concepts/'
        'targets, depth to 60, width to 12; metadata: 0-4 keys, values with leading blanks, ; ( ) " # '
        'VT FF NEL U+2028 U+2029 NBSP, empty values; (c) input texts whose comment lines carry 0-4 "::key value" groups per line with irregular blanks between them; options indent in {None,-1,0,1,2,3,7,40} x '
        'compact in {False,True} (all 16 per tree); through penman.parse/format, iterparse and the '
        'codec methods. Non-trivial: the tree has >=2 nodes or metadata or an alignment.')
ANCHORS = ['penman._format:format', 'penman._format:_format_node', 'penman._format:_format_edge',
           'penman._parse:_parse_comments', 'penman._parse:_parse_node', 'penman._parse:_parse_edge']
PROBES = {'C07': 20, 'C08': 20, 'C17': 10}
MIN_EVAL = {'quick': 8000, 'thorough': 200000}
REQUIRED_COUNTERS = ['with_metadata', 'leading_blank_value', 'multi_key_metadata_lines', 'empty_node', 'missing_target',
                     'compact_differs', 'parser_produced']
INDENTS = [None, -1, 0, 1, 2, 3, 7, 40]
OPTS = [(i, c) for i in INDENTS for c in (False, True)]
WEIRD = ['\xa0', '\x85', '\x0b', '\x0c', '\x1c', '\u2028', '\u2029', '\u3000', ';', '(', ')', '"', '#',
         ':', '~', ' ', '\xe9', '\t', '/', '\\', '\ufeff', '\u200b']


def cases(ctx):
    q = ctx.tier == 'quick'
    b = 0
    for L in range(1, 4 if q else 6):
        total = len(S.TOKENS22) ** L
        for start in range(0, total, 2000):
            if ctx.mine(b):
                yield 'toks', {'len': L, 'start': start, 'count': 2000}
            b += 1
    if q:
        rng = ctx.rng('slice')
        for _ in range(8):
            yield 'toks', {'len': 4, 'start': rng.randrange(22 ** 4 - 2000), 'count': 2000}
    # the nesting depth the project pins as supported (200), in the shapes that cost most stack
    yield 'deep200', {'i': ctx.shard}
    n = 400 if q else 12000
    ctx.new_phase()
    for i in range(n):
        if not ctx.time_left():
            break
        yield 'rand', {'i': i}
        yield 'meta', {'i': i}


def rand_meta(rng):
    m = {}
    if rng.random() < 0.4:
        # many texts share their first metadata line (and differ in the following ones)
        m['id'] = str(rng.randrange(3))
    for _ in range(rng.randrange(0, 5)):
        key = ''.join(rng.choice('abcXYZ-_:1\xe9#(') for _ in range(rng.randrange(1, 5)))
        if key.startswith(':') or '::' in key:
            continue
        val = ''.join(rng.choice(list('ab 1.nt') + WEIRD) for _ in range(rng.randrange(0, 9)))
        if rng.random() < 0.1:
            val = rng.choice(['None', 'null', '0', 'False', 'none', S.rand_value(rng)])   # values that look like "nothing", any Unicode
        val = val.rstrip()           # the parser strips trailing whitespace (not leading)
        if '::' in val or '\n' in val or '\r' in val:
            continue
        if key.endswith(':') and val.startswith(':'):
            continue
        m[key] = val
    return m


def toks(s):
    return [(t[0], t[1]) for t in R.lex(s)]


_ct = [0]


def check_tree(ctx, node, meta, opts=OPTS, det=None):
    det = det or {}
    _ct[0] += 1
    if _ct[0] % 2:
        tree = Tree(node, metadata=dict(meta))
    else:
        # assembled the other way round: a bare Tree, annotated in place afterwards
        tree = Tree(node)
        for k_, v_ in meta.items():
            tree.metadata[k_] = v_
    base = None
    codec = penman.PENMANCodec()
    plain = {}
    for k, (indent, compact) in enumerate(opts):
        ok, s = ctx.call(penman.format, tree, indent=indent, compact=compact, clause='format')
        if not ok:
            continue
        d = dict(det, indent=indent, compact=compact, text=s[:500])
        ok, t2 = ctx.call(penman.parse, s, clause='parse(format(t))')
        if not ok:
            continue
        if t2.node != node:
            ctx.fail('parse(format(t))!=t', mech=f'compact={compact}',
                     detail=dict(d, got=repr(t2.node)[:500], want=repr(node)[:500]))
        if list(t2.metadata.items()) != list(meta.items()):
            ctx.fail('metadata-differs', mech='order' if dict(t2.metadata) == dict(meta) else 'value',
                     detail=dict(d, got=dict(t2.metadata), want=dict(meta)))
        tk = toks(s)
        if base is None:
            base = tk
        elif tk != base:
            ctx.fail('options-change-tokens', mech=f'indent={indent},compact={compact}', detail=d)
        ok, s2 = ctx.call(penman.format, t2, indent=indent, compact=compact, clause='format')
        if ok and s2 != s:
            ctx.fail('format(parse(s))-not-a-fixed-point', detail=dict(d, second=s2[:500]))
        if not compact:
            plain[indent] = s
        elif plain.get(indent) is not None and plain[indent] != s:
            ctx.count('compact_differs')
        if k % 5 == 0:
            # a bare node tuple is formatted like the Tree that wraps it (docs/api example);
            # Tree equality and the codec's parse agree with what was compared above
            if not meta:
                ok, s4 = ctx.call(penman.format, node, indent=indent, compact=compact, clause='format(node tuple)')
                if ok and s4 != s:
                    ctx.fail('format(node-tuple)!=format(Tree)', detail=d)
            if (t2 == Tree(node)) != (t2.node == node) or (t2 == node) != (t2.node == node):
                ctx.fail('Tree.__eq__ disagrees with node equality', detail=d)
            ok, t5 = ctx.call(codec.parse, s, clause='codec.parse')
            if ok and (t5.node != t2.node or dict(t5.metadata) != dict(t2.metadata)):
                ctx.fail('codec.parse!=penman.parse', detail=d)
            # other entry points give the same answers
            ok, s3 = ctx.call(codec.format, tree, indent=indent, compact=compact, clause='codec.format')
            if ok and s3 != s:
                ctx.fail('codec.format!=penman.format', detail=d)
            ok, ts = ctx.call(lambda: list(penman.iterparse(s)), clause='iterparse')
            if ok and (len(ts) != 1 or ts[0].node != node or dict(ts[0].metadata) != dict(meta)):
                ctx.fail('iterparse(format(t))!=[t]', detail=d)
        if indent is None and '\n' in s.split('\n')[-1]:
            pass
        if indent is None and meta == {} and '\n' in s and not _has_newline_atom(node):
            ctx.fail('indent=None-writes-newline', detail=d)


def _has_newline_atom(node):
    for r, t in node[1]:
        if isinstance(t, tuple):
            if _has_newline_atom(t):
                return True
        elif isinstance(t, str) and '\n' in t:
            return True
    return False


def decorate(rng, node):
    """add nested empty nodes, '(a /)', missing targets"""
    v, br = node
    out = []
    for r, t in br:
        if isinstance(t, tuple):
            t = decorate(rng, t)
        if r == '/' and t is not None and rng.random() < 0.08:
            r = ':instance'       # the concept spelled with its explicit role (parser-producible)
        out.append((r, t))
        x = rng.random()
        if x < 0.06:
            out.append((rng.choice(T.ROLES_PLAIN), (None, [])))
        elif x < 0.12:
            out.append((rng.choice(T.ROLES_PLAIN) + T.mk_aln(rng), None))
        elif x < 0.16:
            out.append((':', rng.choice(T.SYMS)))
    return (v, out)


def has_empty(node):
    if node[0] is None:
        return True
    return any(isinstance(t, tuple) and has_empty(t) for r, t in node[1])


def has_missing(node):
    return any((t is None and r != '/') or (isinstance(t, tuple) and has_missing(t)) for r, t in node[1])


def oracle(ctx, kind, p):
    if kind == 'toks':
        for s in S.batch(S.TOKENS22, p['len'], p['start'], p['count'], ' '):
            try:
                t = penman.parse(s)
            except penman.DecodeError:
                continue
            ctx.current = ['text', {'s': s}]
            ctx.count('parser_produced')
            check_tree(ctx, t.node, dict(t.metadata), opts=[(None, False), (-1, True), (2, False), (0, True), (7, False)],
                       det={'source': s})
            ctx.enumerated(nontrivial=len(t.node[1]) > 0, n=5)
            if has_empty(t.node):
                ctx.count('empty_node')
            if has_missing(t.node):
                ctx.count('missing_target')
            if t.metadata:
                ctx.count('with_metadata')
    elif kind == 'deep200':
        rng = ctx.rng('deep200', p['i'])
        node = ('v200', [('/', 'leaf'), (':k', '"s"')])
        for d in range(199, 0, -1):
            br = [('/', rng.choice(T.CONCEPTS))]
            extra = rng.choice([[], [(':polarity', '-')], [(':op1', '"x y"'), (':mod', 'v%d' % rng.randrange(d, 201))]])
            branch = (rng.choice([':ARG0', ':ARG1-of', ':op1~e.3', ':']), node)
            br += (extra + [branch]) if p['i'] % 2 else ([branch] + extra)
            node = ('v%d' % d, br)
        import sys as _sys
        lim = _sys.getrecursionlimit()
        _sys.setrecursionlimit(lim + 2500)     # head-room for the probes' own (recursive) snapshots, not for the library
        try:
            check_tree(ctx, node, {'id': 'deep'}, det={'depth': 200})
        finally:
            _sys.setrecursionlimit(lim)
        ctx.case(('deep200', p['i']), True)
        ctx.count('depth_200_trees')
    elif kind == 'meta':
        # accepted *input texts* with multi-key metadata lines and irregular spacing
        rng = ctx.rng('meta', p['i'])
        lines = [S.comment_line(rng) for _ in range(rng.randrange(1, 4))]
        node = T.rand_tree(rng, M.get('default')[2], n_nodes=rng.choice([1, 2, 3]))
        s = '\n'.join(lines) + '\n' + penman.format(Tree(node), indent=rng.choice([None, -1, 2]))
        ctx.current = ['text', {'s': s}]
        ok, t = ctx.call(penman.parse, s, clause='parse(input)')
        if ok:
            ctx.count('multi_key_metadata_lines', sum(ln.count('::') >= 2 for ln in lines))
            check_tree(ctx, t.node, dict(t.metadata),
                       opts=[(None, False), (-1, False), (2, True), (0, False)], det={'source': s[:300]})
            ctx.evaluations += 3
            ctx.case(s, bool(t.metadata))
            if ctx.want_sample() and len(t.metadata) >= 3:
                ctx.sample({'source': s[:300], 'metadata': dict(t.metadata)})
    elif kind == 'text':
        t = penman.parse(p['s'])
        check_tree(ctx, t.node, dict(t.metadata), det={'source': p['s']})
        ctx.case(p, True)
    elif kind == 'tree':
        check_tree(ctx, T.from_json(p['tree']), p['meta'])
        ctx.case(p, True)
    elif kind == 'rand':
        rng = ctx.rng('rand', p['i'])
        k = p['i'] % 6
        rm = M.get('default')[2]
        if k == 0:
            node = T.rand_tree(rng, rm, deep=True, n_nodes=rng.choice([20, 40, 60]), allow_empty_target=True)
        elif k == 1:
            node = T.rand_tree(rng, rm, max_branch=13, allow_empty_target=True)
        elif k == 2:
            node = (None, [])
        else:
            node = T.rand_tree(rng, rm, allow_empty_target=True, p_aln=0.35)
        if k != 2:
            node = decorate(rng, node)
        meta = rand_meta(rng)
        ctx.current = ['tree', {'tree': T.to_json(node), 'meta': meta}]
        check_tree(ctx, node, meta)
        if meta:
            ctx.count('with_metadata')
        if any(v.startswith((' ', '\t', '\x0b', '\x0c')) for v in meta.values()):
            ctx.count('leading_blank_value')
        if has_empty(node):
            ctx.count('empty_node')
        if has_missing(node):
            ctx.count('missing_target')
        ctx.evaluations += len(OPTS) - 1
        ctx.case(ctx.current, len(T.nodes(node)) >= 2 or bool(meta))
        if ctx.want_sample() and meta and k in (3, 4) and len(T.nodes(node)) >= 3:
            ctx.sample({'text': penman.format(Tree(node, metadata=meta), indent=None, compact=True)[:400]})
