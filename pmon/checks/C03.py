"""C03 - any graph survives encode -> decode with its content intact, from any top.

Events that refute: a WF-G graph g (any triple order, any marker state), a
variable v and a model such that encode(g, top=v) raises, or
decode(encode(g, top=v)) has another top, other variables, or other content
(multiset of triples up to the single deinversion; constants by written
form), or the text defines a variable twice / has a branch count different
from the number of triples to express."""
import itertools
import math

from penman.graph import Graph

from pmon.gen import graphs as G, models as M
from pmon.checks import _graphs

ID = 'C03'
PYTEST_LAW = 'C03'     # also run /repo's own tests with this property's law attached
RULE = ('WF-G graphs (DESIGN 3.4). Exhaustive: <=3 variables (concepts A / None / spelled like a '
        'variable), <=3 edges over {:R,:R-of,:S}, 0-2 attributes incl. the numeric constant 0 and a '
        'missing target; marker states {none, decoded from each top}; every permutation of the '
        'triple list up to 5 triples (4 in quick; strided above to ~120 / ~24 permutations; quick: <=2 variables complete plus a residue '
        'class of the 3-variable graphs), every variable as top. Random: 1-10 variables, shuffled, '
        'marker state in {none, decoded-in-step, decoded then shuffled, decoded from another top}, '
        'str/int/float/None constants, models default/AMR/mini-AMR/random tables. Non-trivial: >=2 '
        'variables, or a numeric/None constant.')
ANCHORS = ['penman.layout:configure', 'penman.layout:_configure_node', 'penman.layout:_find_next',
           'penman.layout:_get_or_establish_site', 'penman.layout:_preconfigure',
           'penman._format:_format_edge', 'penman._format:_format_node']
PROBES = {'C17': 10}
MIN_EVAL = {'quick': 5000, 'thorough': 200000}
REQUIRED_COUNTERS = ['state:none', 'state:decoded', 'const:zero', 'model_churn_rounds']
MODELS_RANDOM = ['default', 'amr', 'mini', 'default', 'rand1', 'rand2', 'rand3', 'rand4', 'inv', 'both', 'prefix']
# the no-op model is outside C03: without deinversion a triple written from its
# target's node does not decode to itself (the property quantifies over default/AMR/custom)


def cases(ctx):
    q = ctx.tier == 'quick'
    if q:
        yield 'exh', {'nmax': 2, 'kmax': 3, 'mod': ctx.nshards, 'rem': ctx.shard}
        m = 100
        yield 'exh', {'nmax': 3, 'kmax': 3, 'only_n': 3, 'mod': m * ctx.nshards,
                      'rem': ctx.rng('res').randrange(m) * ctx.nshards + ctx.shard, 'partial': True}
    else:
        yield 'exh', {'nmax': 3, 'kmax': 3, 'mod': ctx.nshards, 'rem': ctx.shard}
    n = 1200 if q else 30000
    ctx.new_phase()
    for i in range(n):
        if not ctx.time_left():
            break
        yield 'rand', {'i': i}
        if i % 6 == 0:
            yield 'churn', {'i': i}


def oracle(ctx, kind, p):
    if kind == 'exh':
        rm = M.get('default')[2]
        idx = -1
        for vs, triples in _graphs.small_graphs(p['nmax'], p['kmax']):
            if p.get('only_n') and len(vs) != p['only_n']:
                continue
            idx += 1
            if idx % p['mod'] != p['rem']:
                continue
            want = G.content(triples, set(vs), rm)
            for sname, g0 in _graphs.marker_states(ctx, vs, triples):
                base = list(g0.triples)
                perms = itertools.permutations(base)
                target = 24 if ctx.tier == 'quick' else 120
                stride = max(1, math.factorial(len(base)) // target)
                for pi, perm in enumerate(perms):
                    if pi % stride:
                        continue
                    g = Graph(list(perm), top=g0.top, epidata=g0.epidata)
                    for top in vs:
                        ctx.current = _graphs.gpayload(g, 'default', top=top)
                        _graphs.roundtrip(ctx, g, top, 'default', want=want, variables=set(vs),
                                          payload=ctx.current)
                        ctx.enumerated(nontrivial=len(vs) >= 2 or len(triples) > 1)
                        ctx.count('state:none' if sname == 'none' else 'state:decoded')
                        if any(t[2] == 0 and t[2] is not None for t in triples):
                            ctx.count('const:zero')
        if not p.get('partial'):
            ctx.exhaustive[f"small-graphs n<={p['nmax']} edges<={p['kmax']} (shard slice)"] = idx + 1
    elif kind == 'churn':
        # short-lived models of two tables that disagree on a role, used alternately on the
        # same triples: nothing decided for one model may leak into the next
        rng = ctx.rng('churn', p['i'])
        d, mk1, mk2 = _graphs.churn_models(rng)
        triples = [('a', ':instance', 'alpha'), ('a', d, 'b'), ('b', ':instance', 'beta'),
                   ('b', ':quant', 0), ('b', ':ARG0', 'c'), ('c', ':instance', None), ('c', d, 'a')]
        rng.shuffle(triples)
        for k in range(6):
            model, rm = (mk1 if k % 2 == 0 else mk2)()
            g = Graph(list(triples))
            for top in ('a', 'b', 'c'):
                ctx.current = _graphs.gpayload(g, rm.name, top=top, churn=d)
                _graphs.roundtrip(ctx, g, top, rm.name, model_rm=(model, rm), clause='model-churn',
                                  payload=ctx.current)
                ctx.case((p['i'], k, top, d), True)
            del model
            # everyday use: no model argument (penman builds a throw-away default model)
            if k % 2:
                import penman
                ok, s = ctx.call(penman.encode, Graph(list(triples)), top='b', clause='encode(no model)')
                if ok:
                    ok, g2 = ctx.call(penman.decode, s, clause='decode(no model)')
                    if ok and G.content(g2.triples, g2.variables(), rm) != G.content(triples, {'a', 'b', 'c'}, rm):
                        ctx.fail('model-churn:content(no model argument)', detail={'text': s, 'role': d})
        ctx.count('model_churn_rounds')
    elif kind == 'graph':
        g = G.from_json(p['graph'])
        _graphs.roundtrip(ctx, g, p.get('top'), p['model'], budget=True, payload=ctx.current)
        ctx.case(p, True)
    elif kind == 'rand':
        import penman
        rng = ctx.rng('rand', p['i'])
        mname = MODELS_RANDOM[p['i'] % len(MODELS_RANDOM)]
        _, model, rm, _ = M.get(mname)
        vs, triples = G.rand_graph(rng, rm, n=rng.choice([1, 2, 3, 3, 4, 5, 6, 8, 10]))
        rng.shuffle(triples)
        mode = p['i'] % 4
        g0 = Graph(triples)
        if mode:
            ok, s = ctx.call(penman.encode, g0, model=model,
                             top=rng.choice(vs) if mode == 3 else None, clause='pre-encode')
            if not ok:
                return
            ok, g0 = ctx.call(penman.decode, s, model=model, clause='pre-decode')
            if not ok:
                return
            if mode == 2:
                rng.shuffle(g0.triples)
        want = G.content(triples, set(vs), rm)
        tops = vs if len(vs) <= 4 else rng.sample(vs, 4)
        for top in tops + [None]:
            ctx.current = _graphs.gpayload(g0, mname, top=top)
            s = _graphs.roundtrip(ctx, g0, top, mname, want=want, variables=set(vs),
                                  budget=(p['i'] % 10 == 0), payload=ctx.current,
                                  indent=rng.choice([None, -1, 2]))
            numeric = any(isinstance(t[2], (int, float)) or (t[2] is None and t[1] != ':instance')
                          for t in triples)
            ctx.case(ctx.current, len(vs) >= 2 or numeric)
            ctx.count('state:none' if mode == 0 else 'state:decoded')
            if any(isinstance(t[2], (int, float)) and t[2] == 0 for t in triples):
                ctx.count('const:zero')
            ctx.count('model:' + ('rand' if mname.startswith('rand') else mname))
            if ctx.want_sample() and s and len(vs) >= 3 and numeric and top is not None:
                ctx.sample({'triples': triples, 'top': top, 'marker_state': mode, 'model': mname,
                            'encoded': s[:300]})
