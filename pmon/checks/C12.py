"""C12 - every transformation returns a well-formed graph that serialises faithfully.

Events that refute: a transform (or composition with at most one
indicate_branches) raising on a well-formed connected graph - decoded,
hand-built without markers, or edited; a changed top; a source that is not a
variable with exactly one instance triple; encode raising; decode(encode(x))
not equal in content to x; attributes left after reify_attributes; contraction
of the new nodes != original triples; indicate_branches not adding exactly one
top-role triple per nested node, or removal != original."""
import penman
from penman import layout, transform
from penman.graph import Graph
from penman.layout import Push
from penman.tree import Tree

from pmon.gen import graphs as G, trees as T, models as M
from pmon.checks import _trees, _graphs

ID = 'C12'
RULE = ('programs of 1-4 transformations {reify_edges, dereify_edges, reify_attributes, '
        'indicate_branches (at most once)} in the command-line order and in other orders, applied '
        'to five graph classes: hand-built WF-G without markers (explicit top), decoded, decoded '
        'with another top, decoded then shuffled (stale markers), edited (DESIGN 3.7: marker entries '
        'deleted, triples/nodes added or removed), and texts with explicit reified relations '
        '(decode(encode(reify_edges(g), top=any - in 40% of the cases a relation node))) re-topped to any variable '
        'or to an argument of the top relation, with planted relation nodes that repeat a role, carry a third '
        'relation or do not fit the table; models default, AMR (incl. :subset/:superset and '
        'dereifiable concepts), mini-AMR, random tables. Every intermediate result is checked. '
        'Non-trivial: the program changed the graph at least once.')
ANCHORS = ['penman.transform:reify_edges', 'penman.transform:dereify_edges',
           'penman.transform:reify_attributes', 'penman.transform:indicate_branches',
           'penman.transform:_dereify_agenda', 'penman.transform:_edge_markers',
           'penman.transform:_attr_markers', 'penman.layout:appears_inverted',
           'penman.layout:node_contexts']
PROBES = {'C17': 6}
MIN_EVAL = {'quick': 2000, 'thorough': 60000}
REQUIRED_COUNTERS = ['class:hand-built', 'class:decoded', 'class:edited', 'class:shuffled', 'class:reified-text', 'class:wide',
                     'dereified_something',
                     'op:re', 'op:de', 'op:ra', 'op:ib', 'changed']
MODELS_R = ['default', 'amr', 'amr', 'mini', 'rand1', 'rand2', 'amr', 'rand5', 'miniroot', 'altconcept']
R_AMR = [':ARG0', ':ARG1', ':ARG2', ':mod', ':domain', ':op1', ':op2', ':polarity', ':quant',
         ':name', ':consist-of', ':time', ':location', ':poss', ':beneficiary', ':role',
         ':employed-by', ':accompanier', ':age', ':cause', ':subset', ':superset', ':r0', ':r1', ':k']
CONCEPTS = ['alpha', 'beta', 'bark-01', 'i', 'a', 'b', '"str"', '7', 'A', 'have-mod-91',
            'include-91', 'own-01', 'have-org-role-91', 'reif-0-91', 'accompany-01']
OPS = ['re', 'de', 'ra', 'ib']
CLI_ORDER = ['re', 'de', 'ra', 'ib']


def cases(ctx):
    q = ctx.tier == 'quick'
    n = 3000 if q else 50000
    ctx.new_phase()
    for i in range(n):
        if not ctx.time_left():
            break
        yield 'rand', {'i': i}


def apply(op, g, model):
    if model is not None and type(model).__name__ == 'Model' and not model.roles and op in ('re', 'de'):
        # for the default model the argument may be None (documented default)
        a = transform.reify_edges(g, None) if op == 're' else transform.dereify_edges(g, None)
        b = transform.reify_edges(g, model) if op == 're' else transform.dereify_edges(g, model)
        if a.triples != b.triples or a.top != b.top:
            raise AssertionError('model=None differs from the default model')
        return b
    if op == 're':
        return transform.reify_edges(g, model)
    if op == 'de':
        return transform.dereify_edges(g, model)
    if op == 'ra':
        return transform.reify_attributes(g)
    if op == 'ib':
        return transform.indicate_branches(g, model)
    raise ValueError(op)


def plant_reified(rng, node, rm, counter=None):
    """rewrite some branches (role, target) whose role has an unambiguous reification as the
    explicit reified relation ':SRC-of (v / concept :TGT target)', recursively - so reified nodes
    can be arguments of other reified nodes"""
    counter = counter if counter is not None else [0]
    v, br = node
    out = []
    unamb = [x for x in rm.reifications if rm.unambiguous(x[0]) and rm.first_reification(x[0]) == tuple(x[1:])]
    for r, t in br:
        if isinstance(t, tuple):
            t = plant_reified(rng, t, rm, counter)
            if unamb and rng.random() < 0.3:
                # the target itself becomes a full relation node (so a reified relation can be an
                # argument of another one), sometimes with itself as its second argument
                _, c2, s2, t2 = rng.choice(unamb)
                counter[0] += 1
                rq = f'rq{counter[0]}'
                t = (rq, [('/', c2), (s2, t), (t2, rq if rng.random() < 0.25 else rng.choice(['7', '"s"', 'k']))])
        base = r.partition('~')[0]
        fr = rm.first_reification(base) if r != '/' else None
        if fr and rm.unambiguous(base) and not rm.inverted(base) and rng.random() < 0.6 and t is not None:
            concept, sr, tr = fr
            counter[0] += 1
            rf = f'rf{counter[0]}'
            x = rng.random()
            if x < 0.1 and not isinstance(t, tuple):
                # the relation's other argument is the relation node itself (either side)
                out.append((sr + '-of', (rf, [('/', concept), (tr, rf)])))
            elif x < 0.2 and not isinstance(t, tuple):
                out.append((tr + '-of', (rf, [('/', concept), (sr, rf)])))
            elif x < 0.3:
                # a node with a dereifiable concept whose two roles do not fit the table (the model
                # refuses to dereify it): it stays, and so does everything after it
                out.append((sr + '-of', (rf, [('/', concept), (':zz9', t)])))
            else:
                extra = []
                y = rng.random()
                if y < 0.15:
                    # a third relation on the relation node that repeats one of the reification's own
                    # roles (two distinct roles, three relations): the node is not collapsible
                    counter[0] += 1
                    extra = [(rng.choice([tr, sr]),
                              rng.choice(['8', '"t"', 'kk', (f'rx{counter[0]}', [('/', 'thing')])]))]
                elif y < 0.22:
                    extra = [(rng.choice([':polarity', ':ARG3', ':x']), '-')]
                if not isinstance(t, tuple) and not extra and rng.random() < 0.2:
                    # the same relation twice: directly (aligned) and as a collapsible relation node whose
                    # concept and argument role are aligned too - dereification meets an equal triple
                    from pmon.ref import interp as _interp
                    plain = _interp.split_atom(t)[0]
                    out.append((base + '~1', t))
                    out.append((sr + '-of', (rf, [('/', concept + '~2'), (tr + '~4', plain)])))
                    counter.append('twin')
                else:
                    out.append((sr + '-of', (rf, [('/', concept), (tr, t)] + extra)))
        else:
            out.append((r, t))
    return (v, out)


def build(ctx, p):
    rng = ctx.rng('rand', p['i'])
    mname = MODELS_R[p['i'] % len(MODELS_R)]
    _, model, rm, _ = M.get(mname)
    kind = p['i'] % 6
    if p['i'] % 24 == 23:
        pool = [r for r in R_AMR if rm.reifiable(r)] or R_AMR
        node = T.wide_tree(rng, rm, pool)
        ok, g = ctx.call(layout.interpret, Tree(node), model, clause='pre-interpret')
        if not ok:
            return None
        cls = 'wide'
    elif kind == 5:
        # explicit reified relations in the *text* (so that dereify_edges has work to do),
        # written from any node - also from the reified node itself - and then re-topped
        node = T.rand_tree(rng, rm, roles=R_AMR, concepts=CONCEPTS, p_aln=0.2)
        if rng.random() < 0.5:
            node = plant_reified(rng, node, rm)
            ctx.count('planted_reified_relations')
        if not _trees.wellformed(node, rm):
            return None
        ok, g0 = ctx.call(layout.interpret, Tree(node), model, clause='pre-interpret')
        if not ok:
            return None
        ok, r = ctx.call(transform.reify_edges, g0, model, clause='pre-reify')
        if not ok:
            return None
        vs0 = sorted(r.variables())
        relnodes = sorted(r.variables() - g0.variables())
        top0 = rng.choice(relnodes) if relnodes and rng.random() < 0.4 else rng.choice(vs0)
        ok, tr0 = ctx.call(layout.configure, r, top=top0, model=model, clause='pre-configure')
        if not ok:
            return None
        if rng.random() < .6:
            # any branch order a user may have written
            import random as _random
            _random.seed(p['i'])
            layout.rearrange(tr0, key=model.random_order)
        s = penman.format(tr0)
        ok, g = ctx.call(penman.decode, s, model=model, clause='pre-decode')
        if not ok:
            return None
        if top0 in relnodes and rng.random() < .7:
            # the text was written from a relation node; the graph is then re-topped at one of that
            # relation's arguments (the markers still say the relation node opened them)
            args = sorted({t for s_, r_, t in g.triples if s_ == top0 and t in g.variables() and t != top0})
            if args:
                g.top = rng.choice(args)
                ctx.count('retopped_at_argument_of_top_relation')
        elif rng.random() < .7:
            g.top = rng.choice(sorted(g.variables()))
        cls = 'reified-text'
    elif kind == 0:
        vs, triples = G.rand_graph(rng, rm, bases=R_AMR, concepts=CONCEPTS + [None, 7])
        rng.shuffle(triples)
        # (a third of them without an explicit top: the top is then the source of whatever triple comes
        #  first - also when that triple is one a transformation replaces)
        g = Graph(triples, top=rng.choice(vs) if rng.random() < 0.67 else None)
        cls = 'hand-built'
    else:
        node = T.rand_tree(rng, rm, roles=R_AMR, concepts=CONCEPTS, p_aln=0.25)
        if not _trees.wellformed(node, rm):
            return None
        ok, g = ctx.call(layout.interpret, Tree(node), model, clause='pre-interpret')
        if not ok:
            return None
        cls = 'decoded'
        if kind == 2:
            g.top = rng.choice(sorted(g.variables()))
            cls = 'decoded'
        if kind == 3:
            rng.shuffle(g.triples)
            if rng.random() < .5:
                g.top = rng.choice(sorted(g.variables()))
            cls = 'shuffled'
        if kind == 4:
            # the graph has been used (queried, encoded) before it is edited in place
            g.variables()
            g.edges()
            ctx.call(penman.encode, g, model=model, clause='pre-encode')
            G.edit(rng, g, rm)
            if rng.random() < .5:
                g.top = rng.choice(sorted(g.variables()))
            cls = 'edited'
    if cls == 'wide':
        prog = rng.choice([['re'], ['re', 'de'], ['re', 'ra'], ['ra'], ['re', 'ib']])
    elif cls == 'reified-text' and rng.random() < 0.6:
        prog = ['de'] + [op for op in ('ib', 'ra', 're') if rng.random() < 0.6]
        if rng.random() < 0.3:
            prog = ['de', 're'] + (['de'] if rng.random() < 0.5 else [])
    elif rng.random() < 0.35:
        prog = [op for op in CLI_ORDER if rng.random() < 0.6] or ['re']
    else:
        ops = OPS[:]
        prog = []
        for _ in range(rng.randrange(1, 5)):
            op = rng.choice(ops)
            if op == 'ib':
                ops.remove('ib')
            prog.append(op)
    return g, mname, cls, prog


def oracle(ctx, kind, p):
    if kind != 'rand':
        return
    b = build(ctx, p)
    if b is None:
        return
    g, mname, cls, prog = b
    _, model, rm, _ = M.get(mname)
    # precondition: the input itself is well formed, connected and faithful
    if G.wellformed(g) or not G.connected_from(g.triples, g.top, g.variables()):
        ctx.count('input-not-wf')
        return
    ctx.count('class:' + cls)
    cur = g
    changed = False
    for i, op in enumerate(prog):
        ctx.count('op:' + op)
        before_top = cur.top
        ok, nxt = ctx.call(apply, op, cur, model, clause=f'transform:{op}', n=len(cur.triples))
        det = {'model': mname, 'class': cls, 'program': prog[:i + 1], 'input': g.triples, 'top': g.top}
        if not ok:
            break
        if nxt.triples != cur.triples:
            changed = True
            if op == 'de':
                ctx.count('dereified_something')
        if nxt.top != before_top:
            ctx.fail(f'{op}:top-changed', mech=op, detail=dict(det, got=nxt.top, want=before_top))
        wf = G.wellformed(nxt)
        if wf:
            ctx.fail(f'{op}:ill-formed-result', mech=wf.split()[0] + wf.split()[-3],
                     detail=dict(det, reason=wf, result=nxt.triples))
            break
        want = G.content(nxt.triples, nxt.variables(), rm)
        s = _graphs.roundtrip(ctx, nxt, None, mname, want=want, clause=f'{op}:result',
                              indent=None)
        if op == 'ra':
            ok, attrs = ctx.call(nxt.attributes, clause='attributes')
            if ok and attrs:
                ctx.fail('ra:attributes-left', detail=dict(det, left=attrs))
            newv = nxt.variables() - cur.variables()
            conc = {s_: t for s_, r, t in nxt.triples if r == ':instance' and s_ in newv}
            back = [(s_, r, conc[t]) if (r != ':instance' and t in newv) else (s_, r, t)
                    for s_, r, t in nxt.triples if s_ not in newv]
            if back != cur.triples:
                ctx.fail('ra:contraction!=original', detail=dict(det, before=cur.triples, after=nxt.triples))
        if op == 'ib':
            tr_ = rm.top_role
            pushes = 0
            cvars = cur.variables()
            for t in cur.triples:
                p0 = next((e for e in cur.epidata.get(t, []) if isinstance(e, Push)), None)
                if p0 is None:
                    continue
                # the branch opens a nested node when the pushed variable is the target, or the
                # source of an *edge* (written inverted from its target's node); a Push(source)
                # on an attribute cannot be written and opens nothing
                if p0.variable == t[2] or (p0.variable == t[0] and t[2] in cvars):
                    pushes += 1
            added = len(nxt.triples) - len(cur.triples)
            if added != pushes:
                ctx.fail('ib:top-triples!=nested-nodes', detail=dict(det, added=added, pushes=pushes))
            if cls in ('decoded', 'wide') and g.top == g.triples[0][0] and all(o in ('re', 'ra') for o in prog[:i]) \
                    and len(set(cur.triples)) == len(cur.triples):
                # on a graph that came straight from a text (plus reifications, which keep the markers
                # in step with the layout) the nested nodes are those of the text it is written as: one
                # (parent, TOP, child) per node opened inside another (docstring example)
                okc, tree_c = ctx.call(layout.configure, cur, model=model, clause='configure(before ib)')
                if okc:
                    nested = []

                    def walk(nd):
                        for r_, t_ in nd[1]:
                            if isinstance(t_, tuple):
                                nested.append((nd[0], tr_, t_[0]))
                                walk(t_)
                    walk(tree_c.node)
                    tops = [t for t in nxt.triples if t[1] == tr_ and t not in cur.triples]
                    ctx.count('ib_vs_written_nesting')
                    if sorted(tops, key=repr) != sorted(nested, key=repr):
                        ctx.fail('ib:top-triples!=nesting-of-the-written-text',
                                 detail=dict(det, top_triples=tops, nesting=nested))
            orig = list(cur.triples)
            j = 0
            okk = True
            for t in nxt.triples:
                if j < len(orig) and t == orig[j]:
                    j += 1
                elif t[1] == tr_:
                    pass
                else:
                    okk = False
            if j != len(orig) or not okk:
                ctx.fail('ib:removal!=original', detail=dict(det, before=cur.triples, after=nxt.triples))
        cur = nxt
    if changed:
        ctx.count('changed')
    ctx.case(ctx.current, changed)
    if ctx.want_sample() and changed and len(prog) >= 3:
        ctx.sample({'class': cls, 'model': mname, 'program': prog, 'input': g.triples[:10], 'top': g.top})
