"""C14 - layout diagnostics agree with the text the graph was decoded from.

Events that refute: for a graph decoded from a well-formed tree, a node
context that differs from the node that wrote the triple (or is None), a
pushed variable that is not the nested node the branch opened, a triple with
source != target reported as inverted although the text did not write it from
its target's node with an inverted role (or vice versa); on marker-less
graphs: any exception or a non-'unknown' answer."""
from pmon.gen import trees as T, models as M
from pmon.checks import _trees

ID = 'C14'
RULE = ('well-formed trees: bounded-exhaustive small trees (as C02) under default and no-op, seeded '
        'random trees (deep nesting to 25, concept-less nodes with edges, inverted re-entrancies, '
        'several closes on one triple) under default, AMR, mini-AMR, random tables; every decoded '
        'graph is also stripped of its markers for the no-raise clause; layout twins (same top and '
        'triple order, a re-entrancy written inverted outside vs. plainly inside the nested node) are '
        'queried alternately; the graph is obtained through interpret, decode, codec.decode, loads and '
        'iterdecode in turn. Non-trivial: >=2 nodes.')
PROBES = {'C17': 40}
ANCHORS = ['penman.layout:node_contexts', 'penman.layout:appears_inverted',
           'penman.layout:get_pushed_variable']
MIN_EVAL = {'quick': 3000, 'thorough': 100000}
REQUIRED_COUNTERS = ['wf_trees', 'feature:inverted-reentrancy', 'feature:conceptless-with-edges',
                     'requeried_after_twin', 'layout_twins']
MODELS_RANDOM = ['default', 'amr', 'mini', 'default', 'amr', 'noop', 'inv', 'both', 'prefix'] + [f'rand{i}' for i in range(6)]


def cases(ctx):
    q = ctx.tier == 'quick'
    if q:
        yield 'exh', {'nmax': 2, 'kmax': 2, 'mod': ctx.nshards, 'rem': ctx.shard}
        m = 97
        yield 'exh', {'nmax': 3, 'kmax': 1, 'only_n': 3, 'mod': m * ctx.nshards,
                      'rem': ctx.rng('res').randrange(m) * ctx.nshards + ctx.shard, 'partial': True}
    else:
        yield 'exh', {'nmax': 3, 'kmax': 2, 'mod': ctx.nshards, 'rem': ctx.shard}
    n = 2500 if q else 40000
    ctx.new_phase()
    for i in range(n):
        if not ctx.time_left():
            break
        yield 'rand', {'i': i}


def oracle(ctx, kind, p):
    if kind == 'exh':
        idx = -1
        for node in _trees.small_trees(p['nmax'], p['kmax']):
            if p.get('only_n') and len(T.nodes(node)) != p['only_n']:
                continue
            idx += 1
            if idx % p['mod'] != p['rem']:
                continue
            for mname in ('default', 'noop'):
                rm = M.get(mname)[2]
                if not _trees.wellformed(node, rm):
                    continue
                ctx.current = _trees.payload(node, mname)
                g = _trees.c14(ctx, node, mname)
                if g is not None and idx % 5 == 0:
                    _trees.c14_markerless(ctx, g, ctx.current)
                ctx.enumerated(nontrivial=len(T.nodes(node)) >= 2)
                ctx.count('wf_trees')
        if not p.get('partial'):
            ctx.exhaustive[f"small-trees n<={p['nmax']} extras<={p['kmax']} (shard slice)"] = idx + 1
    elif kind == 'tree':
        node = T.from_json(p['tree'])
        g = _trees.c14(ctx, node, p['model'])
        if g is not None:
            _trees.c14_markerless(ctx, g, ctx.current)
        ctx.case(p['tree'], True)
    elif kind == 'rand':
        rng = ctx.rng('rand', p['i'])
        mname = MODELS_RANDOM[p['i'] % len(MODELS_RANDOM)]
        rm = M.get(mname)[2]
        deep = p['i'] % 5 == 0
        node = T.rand_tree(rng, rm, deep=deep, n_nodes=rng.choice([4, 8, 15, 25]) if deep else None,
                           p_noconcept=0.35, p_reent=0.45)
        if not _trees.wellformed(node, rm):
            ctx.count('generator_not_wf')
            return
        ctx.current = _trees.payload(node, mname)
        g = _trees.c14(ctx, node, mname)
        if g is not None:
            _trees.c14_markerless(ctx, g, ctx.current)
            if p['i'] % 2 == 0:
                # same triples and top, other markers, asked in between: the answers for the
                # decoded graph must not change
                _trees.c14(ctx, node, mname)
                ctx.count('requeried_after_twin')
        if p['i'] % 3 == 0 and not rm.noop:
            # twins: same top, same triples in the same order, other layout - asked alternately
            tw = _trees.make_twins(rng, node)
            if tw and _trees.wellformed(tw[0], rm) and _trees.wellformed(tw[1], rm):
                for nd in (tw[0], tw[1], tw[0], tw[1]):
                    ctx.current = _trees.payload(nd, mname)
                    _trees.c14(ctx, nd, mname)
                ctx.count('layout_twins')
        f = T.features(node, rm)
        ctx.case(ctx.current, len(T.nodes(node)) >= 2)
        ctx.count('wf_trees')
        for x in f:
            ctx.count('feature:' + x)
        if ctx.want_sample() and 'inverted-reentrancy' in f:
            ctx.sample({'text': _trees._fmt(node), 'model': mname, 'depth': T.depth(node)})
