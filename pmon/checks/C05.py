"""C05 - re-layout operations never change the graph.

Events that refute: reconfigure(g, key) whose interpretation has other content
or another top; rearrange(t, key, attributes_first) that changes content,
loses/duplicates a branch in some node, moves the concept, leaves the rest
unsorted w.r.t. the reference key, or reorders equal-key branches;
encode(g, top=v) with other content."""
import copy
import random
import re

import penman
from penman import layout
from penman.graph import Graph
from penman.tree import Tree

from pmon.gen import graphs as G, trees as T, models as M
from pmon.ref import interp
from pmon.checks import _graphs, _trees

ID = 'C05'
RULE = ('decoded WF-T graphs (carrying markers and alignments) and hand-built WF-G graphs with '
        'explicit and implicit top x keys {None, original, alphanumeric, canonical, random under 2 '
        'seeds} x attributes_first in {False, True} x a new top; roles include :op1/:op2/:op10, '
        ':ARG0-of, aligned roles and aligned re-entrancies; models default, AMR, mini-AMR, random '
        'tables (deinverting models only). Sortedness/stability use the reference key computed on '
        'role and target without alignments; two fifths of the cases use differently spelled roles with '
        'equal keys (:op/:op0/:op00, :op1/:op01, :snt2/:snt002). Non-trivial: >=2 nodes and >=3 branches somewhere.')
ANCHORS = ['penman.layout:reconfigure', 'penman.layout:rearrange', 'penman.layout:_rearrange',
           'penman.model:Model.alphanumeric_order', 'penman.model:Model.canonical_order',
           'penman.model:Model.original_order', 'penman.model:Model.random_order']
PROBES = {'C17': 10}
MIN_EVAL = {'quick': 500, 'thorough': 10000}   # graphs; each is run under 6 keys x 2 x 2
REQUIRED_COUNTERS = ['reconfigure', 'rearrange', 'implicit-top', 'aligned-role', 'key:canon', 'key:alnum']
MODELS_R = ['default', 'amr', 'mini', 'rand1', 'rand2', 'default', 'amr', 'rand3', 'rand4', 'rand6', 'rand7', 'rand8', 'inv', 'both', 'prefix']
KEYS = ['none', 'orig', 'alnum', 'canon', 'rand']


def cases(ctx):
    q = ctx.tier == 'quick'
    n = 700 if q else 12000
    ctx.new_phase()
    for i in range(n):
        if not ctx.time_left():
            break
        yield 'rand', {'i': i}


def ref_alnum(role):
    m = re.fullmatch(r'(.*\D)(\d+)', role, flags=re.S)
    return (m.group(1), int(m.group(2))) if m else (role, 0)


def keyfunc(model, kn):
    return {'none': None, 'orig': model.original_order, 'alnum': model.alphanumeric_order,
            'canon': model.canonical_order, 'rand': model.random_order}[kn]


def ident(branch):
    r, x = branch
    return (r, x[0] if isinstance(x, tuple) else x, isinstance(x, tuple))


def check_nodes(before, after, kn, af, rm, tvars):
    """per-node laws; returns a reason or None"""
    vb, bb = before
    va, ba = after
    if vb != va:
        return 'node variable changed'
    if sorted(map(repr, map(ident, bb))) != sorted(map(repr, map(ident, ba))):
        return 'branch multiset changed'
    if bb and bb[0][0] == '/' and (not ba or ident(ba[0]) != ident(bb[0])):
        return 'concept not first'
    rest = ba[1:] if (ba and bb and bb[0][0] == '/') else ba
    restb = bb[1:] if (bb and bb[0][0] == '/') else bb
    if kn != 'rand':
        def k(br):
            role, tgt = br
            rr = role.partition('~')[0]
            if af:
                c1 = (tgt[0] if isinstance(tgt, tuple) else interp.split_atom(tgt)[0]) in tvars
            else:
                c1 = False
            if kn in ('none', 'orig'):
                c2 = True
            elif kn == 'alnum':
                c2 = ref_alnum(rr)
            else:
                c2 = (rm.inverted(rr), ref_alnum(rr))
            return (c1, c2)
        ks = [k(b) for b in rest]
        if any(ks[i] > ks[i + 1] for i in range(len(ks) - 1)):
            return 'not sorted by the reference key'
        ids_b = [ident(b) for b in restb]
        pos = []
        used = set()
        for b in rest:
            i0 = next(i for i, x in enumerate(ids_b) if x == ident(b) and i not in used)
            used.add(i0)
            pos.append(i0)
        for i in range(len(rest) - 1):
            if ks[i] == ks[i + 1] and pos[i] > pos[i + 1]:
                return 'unstable for equal keys'
    ma = {}
    for r, x in ba:
        if isinstance(x, tuple):
            ma.setdefault(x[0], []).append(x)
    for r, x in bb:
        if isinstance(x, tuple):
            cand = ma.get(x[0])
            if not cand:
                return 'nested node lost'
            e = check_nodes(x, cand.pop(0), kn, af, rm, tvars)
            if e:
                return e
    return None


def build(ctx, p):
    """-> (graph, mname, description) deterministic from the payload"""
    rng = ctx.rng('rand', p['i'])
    mname = MODELS_R[p['i'] % len(MODELS_R)]
    _, model, rm, _ = M.get(mname)
    kind = p['i'] % 3
    extra = (':op1', ':op2', ':op10', ':op3', ':ARG0', ':ARG1', ':snt2', ':snt10')
    if p['i'] % 5 < 2:
        # differently spelled roles whose keys are equal (no suffix = suffix 0, zero padding): ties
        # that must keep their written order
        extra = (':op', ':op0', ':op00', ':op1', ':op01', ':op001', ':snt2', ':snt002', ':ARG', ':ARG0', ':ARG00')
        ctx.count('tie_roles')
    if kind == 0:
        vs, triples = G.rand_graph(rng, rm, bases=G.BASES + list(extra))
        rng.shuffle(triples)
        explicit = p['i'] % 2 == 1
        g = Graph(triples, top=(rng.choice(vs) if explicit else None))
        desc = 'hand-built, ' + ('explicit top' if explicit else 'implicit top')
        if not explicit:
            ctx.count('implicit-top')
    else:
        node = T.rand_tree(rng, rm, extra_roles=extra, p_aln=0.3, max_branch=6)
        if not _trees.wellformed(node, rm):
            return None
        ok, g = ctx.call(layout.interpret, Tree(node), model, clause='pre-interpret')
        if not ok:
            return None
        desc = 'decoded'
        if 'role-aln' in T.features(node, rm):
            ctx.count('aligned-role')
    return g, mname, desc


def oracle(ctx, kind, p):
    if kind != 'rand':
        return
    built = build(ctx, p)
    if built is None:
        return
    g, mname, desc = built
    _, model, rm, _ = M.get(mname)
    vs = g.variables()
    base = G.graph_content(g, rm)
    nontrivial = False
    for kn in KEYS:
        key = keyfunc(model, kn)
        for rseed in ((p['i'], p['i'] + 1) if kn == 'rand' else (0,)):
            random.seed(rseed)
            ctx.count('reconfigure')
            ctx.count('key:' + kn)
            ok, t2 = ctx.call(layout.reconfigure, g, model=model, key=key, clause='reconfigure')
            if ok:
                ok, g2 = ctx.call(lambda: penman.decode(penman.format(t2), model=model), clause='decode')
                if ok and G.graph_content(g2, rm) != base:
                    k = 'reconfigure:top' if g2.top != base[0] else 'reconfigure:content'
                    ctx.fail(k, mech=kn, detail={'graph': desc, 'key': kn, 'triples': g.triples,
                                                 'top': g.top, 'text': penman.format(t2, indent=None)[:400],
                                                 'model': mname})
            for af in (False, True):
                random.seed(rseed + 7)
                ok, t3 = ctx.call(layout.configure, g, model=model, clause='configure')
                if not ok:
                    continue
                before = copy.deepcopy(t3.node)
                ctx.count('rearrange')
                ok, _ = ctx.call(layout.rearrange, t3, key=key, attributes_first=af, clause='rearrange')
                if not ok:
                    continue
                if rseed == 0 and kn != 'rand' and p['i'] % 4 == 0:
                    # the same tree with list nodes (JSON round trip) is rearranged alike
                    nested = T.listify(before)
                    tl = Tree((nested[0], nested[1]))
                    okl, _ = ctx.call(layout.rearrange, tl, key=key, attributes_first=af, clause='rearrange(list nodes)')
                    if okl and T.tuplify(tl.node) != T.tuplify(t3.node):
                        ctx.fail('rearrange:list-nodes-differ', mech=kn,
                                 detail={'key': kn, 'attributes_first': af,
                                         'before': penman.format(Tree(before), indent=None)[:400]})
                ok, g3 = ctx.call(lambda: penman.decode(penman.format(t3), model=model), clause='decode')
                if ok and G.graph_content(g3, rm) != base:
                    ctx.fail('rearrange:content', mech=kn,
                             detail={'key': kn, 'attributes_first': af, 'model': mname,
                                     'before': penman.format(Tree(before), indent=None)[:400],
                                     'after': penman.format(t3, indent=None)[:400]})
                tvars = {n[0] for n in T.nodes(before)}
                e = check_nodes(before, t3.node, kn, af, rm, tvars)
                if e:
                    ctx.fail('rearrange:' + e, mech=f'{kn}/{af}',
                             detail={'key': kn, 'attributes_first': af, 'model': mname,
                                     'before': penman.format(Tree(before), indent=None)[:400],
                                     'after': penman.format(t3, indent=None)[:400]})
                if len(tvars) >= 2 and any(len(n[1]) >= 3 for n in T.nodes(before)):
                    nontrivial = True
    # a new top never changes the content
    rng = ctx.rng('top', p['i'])
    for top in sorted(vs, key=repr)[:3]:
        want = G.content(g.triples, vs, rm)
        _graphs.roundtrip(ctx, g, top, mname, want=want, variables=vs, clause='new-top')
    ctx.case(ctx.current, nontrivial)
    if ctx.want_sample() and nontrivial:
        ctx.sample({'graph': desc, 'model': mname, 'triples': g.triples[:12], 'top': g.top})
