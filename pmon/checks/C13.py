"""C13 - role inversion and canonicalisation obey their algebra under every model.

Events that refute: for a role b + k*'-of' (with or without leading colon):
canonicalize_role != normalisation of b + (k mod 2)*'-of', not starting with
':', not idempotent (tables whose normalisation targets are fixed points); a
defined role reported inverted; is_role_inverted / has_role != reference; for
k<=1: invert_role not involutive or not flipping inverted-ness, invert not
swapping, deinvert != invert on inverted / identity otherwise / identity under
no-op; canonicalize_roles(tree) changing anything but role text or not
idempotent; _canonicalize_inversion exceeding the step budget."""
import penman
from penman import transform
from penman.tree import Tree

from pmon.gen import models as M, trees as T
from pmon.checks import _trees

ID = 'C13'
RULE = ('roles base + k*"-of", k in 0..4, with and without the leading colon; bases per R-base '
        '(DESIGN 3.2): every literal role of the model tables (pattern roles instantiated: :ARG0, '
        ':ARG9, :op1, :op10, :snt2 ...), roles ending in -of by definition (:consist-of, '
        ':prep-on-behalf-of, :x-of ...), the empty role, :TOP, :instance, undefined bases; models '
        'default, AMR, no-op, mini-AMR, 40 random tables (literal roles, regex roles incl. patterns that '
        'end in -of such as :(u|w)-of, normalisations), 10 tables with normalisation chains '
        '(single-lookup clause only); tree clause on WF-T trees whose roles are additionally '
        'over-inverted and stripped of their colon, with duplicated branches in a third of them and roles that '
        'are plain-alias normalisation keys; triple laws with variable, numeric, string and missing targets. Exhaustive over that finite role x model grid. '
        'Non-trivial: k>=1 or the base is model-defined.')
ANCHORS = ['penman.model:Model.canonicalize_role', 'penman.model:Model._canonicalize_inversion',
           'penman.model:Model.invert_role', 'penman.model:Model.is_role_inverted',
           'penman.model:Model.has_role', 'penman.model:Model.invert', 'penman.model:Model.deinvert',
           'penman.models.noop:NoOpModel.deinvert', 'penman.transform:canonicalize_roles',
           'penman.transform:_canonicalize_node']
PROBES = {'C17': 20}
MIN_EVAL = {'quick': 5000, 'thorough': 20000}
REQUIRED_COUNTERS = ['roles', 'trees', 'defined-ending-in-of', 'normalised', 'short_lived_models', 'duplicate_branches']
EXTRA_BASES = [':foo', ':ARG0', ':', ':a-b', ':TOP', ':instance', ':op', ':ARG10', ':x', ':consist-of',
               ':prep-on-behalf-of', ':prep-out-of', ':mod', ':domain', ':\u00e9t\u00e9']


def cases(ctx):
    q = ctx.tier == 'quick'
    names = M.names(40) + [f'chain{i}' for i in range(10)] + ['both', 'prefix']
    for j, name in enumerate(names):
        if ctx.mine(j):
            yield 'model', {'model': name}
    n = 1500 if q else 20000
    ctx.new_phase()
    for i in range(n):
        if not ctx.time_left():
            break
        yield 'tree', {'i': i}
        if i % 50 == 0:
            yield 'churn', {'i': i}


def bases_for(rm):
    bases = set(M.defined_literals(rm)) | set(EXTRA_BASES) | {k for k in rm.normalizations if not k.endswith('-of')}
    out = []
    for b in sorted(bases):
        if rm.defines(b):
            if not rm.defines(b + '-of'):      # (a table defining b and b-of: b has no inverse spelling, O3)
                out.append(b)
        elif not b.endswith('-of') and not rm.defines(b + '-of'):
            out.append(b)
    return out


def oracle(ctx, kind, p):
    if kind == 'model':
        name = p['model']
        _, m, rm, spec = M.get(name)
        chain = name.startswith('chain')
        if spec is not None:
            # from_dict builds the class it is called on
            from penman.model import Model
            from penman.models.noop import NoOpModel
            d = {'roles': spec.get('roles'), 'normalizations': spec.get('normalizations'),
                 'reifications': [tuple(r) for r in spec.get('reifications', [])]}
            for cls in (Model, NoOpModel):
                ok, m2 = ctx.call(cls.from_dict, d, clause='from_dict')
                if ok and (type(m2) is not cls or (cls is Model and m2 != m)):
                    ctx.fail('from_dict:class-or-content', detail={'model': name, 'class': cls.__name__,
                                                                   'got': type(m2).__name__})
                if ok and cls is NoOpModel and m2.deinvert(('s', ':zz-of', 't')) != ('s', ':zz-of', 't'):
                    ctx.fail('deinvert:noop-identity(from_dict)', detail={'model': name})
        for b in bases_for(rm):
            for k in range(0, 5):
                for colon in (True, False):
                    r = b + '-of' * k
                    rin = r if colon else r[1:]
                    ctx.current = ['role', {'model': name, 'role': rin, 'base': b, 'k': k}]
                    check_role(ctx, name, m, rm, b, k, r, rin, chain)
                    ctx.enumerated(nontrivial=k >= 1 or rm.defines(b))
                    ctx.count('roles')
                    if ctx.want_sample() and k == 3 and rm.defines(b) and name != 'default':
                        ctx.sample({'model': name, 'role': rin, 'canonicalize_role': m.canonicalize_role(rin),
                                    'is_role_inverted': m.is_role_inverted(r), 'has_role': m.has_role(r)})
        ctx.exhaustive['role-grid(models x bases x k<=4 x colon)'] = ctx.exhaustive.get(
            'role-grid(models x bases x k<=4 x colon)', 0) + 1
    elif kind == 'role':
        _, m, rm, spec = M.get(p['model'])
        b, k = p['base'], p['k']
        check_role(ctx, p['model'], m, rm, b, k, b + '-of' * k, p['role'], p['model'].startswith('chain'))
        ctx.case(p, True)
    elif kind == 'tree':
        rng = ctx.rng('tree', p['i'])
        name = (M.FIXED + [f'rand{i}' for i in range(8)] + ['both', 'chain0', 'chain5', 'chain7', 'prefix'])[p['i'] % 17]
        _, m, rm, spec = M.get(name)
        if p['i'] % 3 == 0:
            # model churn: a short-lived model object built from a fresh random table, used once
            # and dropped (state keyed on the identity of an earlier model must not leak)
            name = f'rand{1000 + p["i"] % 97}'
            m, rm = M.from_spec(M.rand_spec(1000 + p['i'] % 97), name)
            ctx.count('short_lived_models')
        node = T.rand_tree(rng, rm, extra_roles=[k for k in rm.normalizations if not k.endswith('-of')])

        def over(nd):
            v, br = nd
            out = []
            for r, t in br:
                if isinstance(t, tuple):
                    t = over(t)
                if r != '/':
                    base, tilde, aln = r.partition('~')
                    if name.startswith('chain') and rm.normalizations and rng.random() < 0.4:
                        # under a table with normalisation chains: the keys themselves, several per tree
                        # (each branch is canonicalised on its own, whatever was seen before)
                        base = rng.choice(sorted(rm.normalizations))
                    x = rng.random()
                    if x < 0.3:
                        base += '-of-of'
                    elif x < 0.4:
                        base += '-of-of-of-of'
                    if rng.random() < 0.2:
                        base = base[1:]
                    r = base + tilde + aln
                out.append((r, t))
            return (v, out)
        node = over(node)
        if rng.random() < 0.3:
            # the same branch written twice in one node (value-equal branches, atomic or nested)
            def dup(nd, depth=0):
                v, br = nd
                br = [(r, dup(t, depth + 1) if isinstance(t, tuple) else t) for r, t in br]
                cand = [k for k, (r, t) in enumerate(br) if r != '/']
                if cand and rng.random() < (0.7 if depth == 0 else 0.3):
                    k = rng.choice(cand)
                    br.insert(rng.choice([k + 1, len(br)]), br[k])
                    ctx.count('duplicate_branches')
                return (v, br)
            node = dup(node)
        ctx.current = ['treecase', {'tree': T.to_json(node), 'model': name}]
        check_tree(ctx, node, name, m, rm)
        del m
        ctx.case(ctx.current, True)
        ctx.count('trees')
    elif kind == 'churn':
        # short-lived models whose tables disagree about the same role texts, one after the other
        # on the same tree (and through the role-level API)
        from penman.model import Model
        from pmon.ref.model import RefModel
        rng = ctx.rng('churn', p['i'])
        node = ('a', [('/', 'x'), (':r0-of', ('b', [('/', 'y'), ('r1-of-of-of', 'a'), (':k-of', 'c~e.1')])),
                      (':m-n-of~e.2', ('c', [('/', 'z'), (':x-of', 'a')]))])
        tables = [
            {'roles': {':r0': {}, ':r1': {}, ':k': {}}, 'normalizations': {':r0-of': ':r1', ':r1-of': ':k'}},
            {'roles': {':r0': {}, ':r2': {}, ':x-of': {}}, 'normalizations': {':r0-of': ':r2', ':k-of': ':r0'}},
            {'roles': {':m-n-of': {}, ':k': {}}, 'normalizations': {':m-n-of-of': ':k'}},
            {'roles': {}, 'normalizations': {}},
        ]
        for k in range(24):
            spec = tables[(k + p['i']) % len(tables)] if k % 2 else rng.choice(tables)
            m = Model(roles=spec['roles'], normalizations=spec['normalizations'])
            rm = RefModel(roles=list(spec['roles']), normalizations=spec['normalizations'], name=f'churn{k}')
            ctx.current = ['treecase', {'tree': T.to_json(node), 'model': 'churn'}]
            check_tree(ctx, node, f'churn-table-{tables.index(spec)}', m, rm)
            for role in (':r0-of', ':k-of', ':x-of', ':m-n-of', ':m-n-of-of', ':r1-of-of-of'):
                for name_, got, want in (('is_role_inverted', m.is_role_inverted(role), rm.inverted(role)),
                                         ('has_role', m.has_role(role), rm.has_role(role)),
                                         ('canonicalize_role', m.canonicalize_role(role), rm.canon_role(role))):
                    if got != want and (name_ != 'canonicalize_role' or _rbase_ok(rm, role)):
                        ctx.fail(f'{name_}!=reference(model churn)', mech=role,
                                 detail={'role': role, 'got': got, 'want': want, 'table': spec})
            del m
        ctx.count('short_lived_models', 24)
        ctx.case(('churn', p['i']), True)
    elif kind == 'treecase':
        check_tree(ctx, T.from_json(p['tree']), p['model'])
        ctx.case(p, True)


def check_role(ctx, name, m, rm, b, k, r, rin, chain):
    det = {'model': name, 'role': rin, 'base': b, 'k': k}
    ok, c = ctx.call(m.canonicalize_role, rin, clause='canonicalize_role', n=k + 1)
    if ok:
        exp_ci = b + '-of' * (k % 2)
        exp = rm.normalizations.get(exp_ci, exp_ci)
        if exp != exp_ci:
            ctx.count('normalised')
        if c != exp:
            ctx.fail('canonicalize_role:value', mech='norm' if exp != exp_ci else 'inversion',
                     detail=dict(det, got=c, want=exp))
        if not (isinstance(c, str) and c.startswith(':')):
            ctx.fail('canonicalize_role:colon', detail=dict(det, got=c))
        if not chain:
            ok2, c2 = ctx.call(m.canonicalize_role, c, clause='canonicalize_role', n=k + 1)
            if ok2 and c2 != c:
                ctx.fail('canonicalize_role:idempotent', detail=dict(det, once=c, twice=c2))
        ok3, tr = ctx.call(m.canonicalize, ('s', rin, 't'), clause='canonicalize')
        if ok3 and tr != ('s', c, 't'):
            ctx.fail('canonicalize:triple', detail=dict(det, got=tr))
    d = rm.defines(r)
    if d and r.endswith('-of'):
        ctx.count('defined-ending-in-of')
    ok, inv = ctx.call(m.is_role_inverted, r, clause='is_role_inverted')
    if ok:
        if d and inv:
            ctx.fail('defined-role-reported-inverted', detail=det)
        if bool(inv) != rm.inverted(r):
            ctx.fail('is_role_inverted!=reference', detail=dict(det, got=inv, want=rm.inverted(r)))
    ok, hr = ctx.call(m.has_role, r, clause='has_role')
    if ok and bool(hr) != rm.has_role(r):
        ctx.fail('has_role!=reference', detail=dict(det, got=hr, want=rm.has_role(r)))
    if k <= 1:
        ok1, i1 = ctx.call(m.invert_role, r, clause='invert_role')
        if not ok1:
            return
        ok2, i2 = ctx.call(m.invert_role, i1, clause='invert_role')
        if ok2 and i2 != r:
            ctx.fail('invert_role:involution', detail=dict(det, once=i1, twice=i2))
        if bool(m.is_role_inverted(i1)) == bool(m.is_role_inverted(r)):
            ctx.fail('invert_role:flip', detail=dict(det, inverse=i1))
        tr = ('s', r, 't')
        ok, it = ctx.call(m.invert, tr, clause='invert')
        if ok and it != ('t', i1, 's'):
            ctx.fail('invert:swap', detail=dict(det, got=it))
        for tgt in (5, 2.5, None):
            ok, it = ctx.call(m.invert, ('s', r, tgt), clause='invert')
            if ok and (it != (tgt, i1, 's') or type(it[0]) is not type(tgt)):
                ctx.fail('invert:swap(non-str target)', detail=dict(det, target=repr(tgt), got=repr(it)))
        # whatever the target is (a number, a quoted string, nothing): the triple algebra does not
        # look at it
        for tgt in (5, 2.5, '"b"', None, '-'):
            tr2 = ('s', r, tgt)
            ok, dt2 = ctx.call(m.deinvert, tr2, clause='deinvert')
            if ok:
                want2 = tr2 if (rm.noop or not rm.inverted(r)) else (tgt, i1, 's')
                if dt2 != want2 or type(dt2[0]) is not type(want2[0]):
                    ctx.fail('deinvert:non-variable target', mech=type(tgt).__name__,
                             detail=dict(det, triple=repr(tr2), got=repr(dt2), want=repr(want2)))
        ok, dt = ctx.call(m.deinvert, tr, clause='deinvert')
        if ok:
            if rm.noop:
                if dt != tr:
                    ctx.fail('deinvert:noop-identity', detail=dict(det, got=dt))
            elif rm.inverted(r):
                if dt != ('t', i1, 's'):
                    ctx.fail('deinvert:inverted', detail=dict(det, got=dt))
            elif dt != tr:
                ctx.fail('deinvert:non-inverted-changed', detail=dict(det, got=dt))


def shape(node):
    """everything but role text: variables, nesting, targets, role alignments"""
    v, br = node
    return (v, [(r.partition('~')[1] + r.partition('~')[2] if r != '/' else '/',
                 shape(t) if isinstance(t, tuple) else t) for r, t in br])


def check_tree(ctx, node, name, m=None, rm=None):
    if m is None:
        _, m, rm, spec = M.get(name)
    tree = Tree(node, metadata={'k': 'v'})
    ok, t2 = ctx.call(transform.canonicalize_roles, tree, m, clause='canonicalize_roles',
                      n=T.size(node))
    if not ok:
        return
    if len(node[1]) % 3 == 0:
        # the same tree with list nodes (after a JSON round trip) is canonicalised alike
        nested = T.listify(node)
        ok_l, tl = ctx.call(transform.canonicalize_roles, Tree((nested[0], nested[1])), m,
                            clause='canonicalize_roles(list nodes)')
        if ok_l and T.tuplify(tl.node) != T.tuplify(t2.node):
            ctx.fail('canonicalize_roles:list-nodes-differ', detail={'model': name, 'tree': repr(node)[:400],
                                                                    'got': repr(tl.node)[:400]})
    det = {'model': name, 'before': repr(node)[:500], 'after': repr(t2.node)[:500]}
    if shape(t2.node) != shape(node):
        ctx.fail('canonicalize_roles:changed-more-than-roles', detail=det)
    if dict(t2.metadata) != {'k': 'v'}:
        ctx.fail('canonicalize_roles:metadata', detail=det)
    # each role is the canonical form of what was written
    for (ra, _), (rb, _) in zip(_branches(node), _branches(t2.node)):
        if ra == '/':
            if rb != '/':
                ctx.fail('canonicalize_roles:concept-role', detail=det)
            continue
        base = ra.partition('~')[0]
        want = rm.canon_role(base)
        if rb.partition('~')[0] != want and _rbase_ok(rm, base):
            ctx.fail('canonicalize_roles:role-value', detail=dict(det, role=ra, got=rb, want=want))
        if rb.partition('~')[0] != m.canonicalize_role(base):
            ctx.fail('canonicalize_roles!=canonicalize_role', detail=dict(det, role=ra, got=rb,
                                                                         role_level=m.canonicalize_role(base)))
    if name == 'default':
        ok, tn = ctx.call(transform.canonicalize_roles, tree, None, clause='canonicalize_roles(None)')
        if ok and tn.node != t2.node:
            ctx.fail('canonicalize_roles(model=None)!=default-model', detail=det)
    ok, t3 = ctx.call(transform.canonicalize_roles, t2, m, clause='canonicalize_roles')
    if ok and t3.node != t2.node and not name.startswith('chain'):
        ctx.fail('canonicalize_roles:idempotent', detail=dict(det, twice=repr(t3.node)[:500]))


def _rbase_ok(rm, role):
    r = role if role.startswith(':') else ':' + role
    while r.endswith('-of') and not rm.defines(r):
        r = r[:-3]
    return rm.defines(r) or not rm.defines(r + '-of')


def _branches(node):
    out = []
    for r, t in node[1]:
        out.append((r, t))
        if isinstance(t, tuple):
            out.extend(_branches(t))
    return out
