"""C15 - graph queries partition the triples; graph set operations are set algebra.

The real Graph is driven next to a small sequential reference model
(pmon/ref/graph.py); every query and every step of an operation history is
compared, and an icontract class invariant watches Graph's representation."""
import copy
import itertools

import icontract

import penman
from penman.graph import Graph
from penman.exceptions import GraphError
from penman.layout import Push, POP, Pop

from pmon import canon
from pmon.ref.graph import RefGraph, colon

ID = 'C15'
RULE = ('triple lists over 3 sources x 6 roles (with/without colon, :instance, inverted) x 6 targets '
        '(variables, constant, None, number) x 5 explicit tops: exhaustive for length<=2 (quick) / '
        'length<=3 strided (thorough); seeded random lists with duplicates, concept-equals-variable, '
        'None targets; pairs sharing triples; operation histories of 1-6 steps mixing |, |=, -, -=, '
        'top assignment on a pool of 3 graphs, compared step by step with the sequential reference '
        'model (half of the histories are queried only at the end, after one warm-up query of every '
        'graph, so that state cached by an early query is still present when it matters). Non-trivial: the list has >=2 triples (queries) / the history has >=2 steps.')
ANCHORS = ['penman.graph:Graph.__init__', 'penman.graph:Graph.__or__', 'penman.graph:Graph.__ior__',
           'penman.graph:Graph.__sub__', 'penman.graph:Graph.__isub__', 'penman.graph:Graph.top',
           'penman.graph:Graph.variables', 'penman.graph:Graph.instances', 'penman.graph:Graph.edges',
           'penman.graph:Graph.attributes', 'penman.graph:Graph._filter_triples',
           'penman.graph:Graph.reentrancies', 'penman.graph:Graph.__eq__']
PROBES = {'C17': 5}
MIN_EVAL = {'quick': 20000, 'thorough': 300000}
REQUIRED_COUNTERS = ['queries', 'history_steps', 'deferred_query_histories', 'invariant_checks', 'top_refused', 'top_accepted',
                     'op:|', 'op:|=', 'op:-', 'op:-=']
SRC = ['a', 'b', 'c']
TGT = ['a', 'b', 'c', 'x', None, 7]
ROLES = [':instance', ':R', 'S', ':R-of', ':ARG0', 'instance']
TOPS = [None, 'a', 'b', 'x', 'zz']


class InvariantBroken(Exception):
    pass


_inv_checks = [0]


def graph_repr_ok(self):
    _inv_checks[0] += 1
    if not isinstance(self.triples, list) or not isinstance(self.epidata, dict) \
            or not isinstance(self.metadata, dict):
        return False
    for t in self.triples:
        if not (isinstance(t, tuple) and len(t) == 3 and isinstance(t[1], str) and t[1].startswith(':')):
            return False
    for k, v in self.epidata.items():
        if not isinstance(v, list):
            return False
    return True


_installed = False


def install_invariant():
    """icontract class invariant on the real Graph (checked after __init__ and
    around every public method while this check runs)."""
    global _installed
    if _installed:
        return
    _installed = True
    import penman.graph as PG
    NewGraph = icontract.invariant(graph_repr_ok, error=InvariantBroken, enabled=True)(PG.Graph)   # (also under -O)
    if NewGraph is not PG.Graph:
        raise RuntimeError('icontract returned another class')


def cases(ctx):
    q = ctx.tier == 'quick'
    yield 'exh', {'maxlen': 2, 'stride': 1, 'mod': ctx.nshards, 'rem': ctx.shard}
    if not q:
        yield 'exh', {'maxlen': 3, 'minlen': 3, 'stride': 5, 'mod': ctx.nshards, 'rem': ctx.shard,
                      'partial': True}
    n = 4000 if q else 60000
    ctx.new_phase()
    for i in range(n):
        if not ctx.time_left():
            break
        yield 'rand', {'i': i}
        yield 'hist', {'i': i}


_mk_n = [0]


def mk(triples, top, epi=None, meta=None):
    """(real graph, model graph); the triples are handed over in varying forms (list of tuples,
    Triple namedtuples, lists, a generator) - the graph must be the same"""
    from penman.graph import Triple
    ep = {}
    for t, ms in (epi or {}).items():
        ep[t] = list(ms)
    _mk_n[0] += 1
    form = _mk_n[0] % 4
    if form == 1:
        arg = [Triple(*t) for t in triples]
    elif form == 2:
        arg = tuple(list(t) for t in triples)
    elif form == 3:
        arg = (t for t in triples)
    else:
        arg = list(triples)
    g = Graph(arg, top=top, epidata=ep, metadata=meta)
    m = RefGraph(triples, top, {t: tuple(canon.marker(x) for x in ms) for t, ms in (epi or {}).items()},
                 meta)
    return g, m


def tl(xs):
    return [tuple(x) for x in xs]


def check_queries(ctx, g, m, det):
    ctx.count('queries')
    T = m.triples
    if list(g.triples) != T:
        ctx.fail('triples:colon-or-order', detail=dict(det, got=g.triples, want=T))
        return
    ok, vs = ctx.call(g.variables, clause='variables')
    if ok and vs != m.variables():
        ctx.fail('variables', detail=dict(det, got=sorted(vs, key=repr), want=sorted(m.variables(), key=repr)))
    ok, top = ctx.call(lambda: g.top, clause='top')
    if ok and top != m.top:
        ctx.fail('top', detail=dict(det, got=top, want=m.top))
    ok, inst = ctx.call(g.instances, clause='instances')
    ok2, edges = ctx.call(g.edges, clause='edges')
    ok3, attrs = ctx.call(g.attributes, clause='attributes')
    if not (ok and ok2 and ok3):
        return
    if tl(inst) != m.instances():
        ctx.fail('instances', detail=dict(det, got=tl(inst), want=m.instances()))
    if tl(edges) != m.edges():
        ctx.fail('edges', detail=dict(det, got=tl(edges), want=m.edges()))
    if tl(attrs) != m.attributes():
        ctx.fail('attributes', detail=dict(det, got=tl(attrs), want=m.attributes()))
    # partition, stated on the real results alone: each triple position in exactly one
    import collections
    if collections.Counter(tl(inst) + tl(edges) + tl(attrs)) != collections.Counter(T):
        ctx.fail('partition', detail=dict(det, instances=tl(inst), edges=tl(edges), attributes=tl(attrs)))
    ok, re_ = ctx.call(g.reentrancies, clause='reentrancies')
    if ok and dict(re_) != m.reentrancies():
        ctx.fail('reentrancies', detail=dict(det, got=dict(re_), want=m.reentrancies()))


def check_filters(ctx, g, m, rng, det):
    s = rng.choice(SRC + [None])
    r = rng.choice([':R', ':ARG0', ':S', None])
    t = rng.choice(['a', 'x', 7, None])

    def f(L):
        return [q for q in L if (s is None or q[0] == s) and (r is None or q[1] == r)
                and (t is None or q[2] == t)]
    ok, e = ctx.call(g.edges, source=s, role=r, target=t, clause='edges(filter)')
    if ok and tl(e) != f(m.edges()):
        ctx.fail('edges:filter', detail=dict(det, filter=(s, r, t), got=tl(e), want=f(m.edges())))
    ok, a = ctx.call(g.attributes, source=s, role=r, target=t, clause='attributes(filter)')
    if ok and tl(a) != f(m.attributes()):
        ctx.fail('attributes:filter', detail=dict(det, filter=(s, r, t), got=tl(a), want=f(m.attributes())))


def check_top_setter(ctx, g, m, nt, det):
    g2 = copy.deepcopy(g)
    try:
        g2.top = nt
        ok = True
    except GraphError:
        ok = False
    except Exception as e:
        ctx.fail('top-setter:unexpected-exception', detail=dict(det, new_top=nt, exc=repr(e)))
        return
    want = m.can_set_top(nt)
    ctx.count('top_accepted' if ok else 'top_refused')
    if ok != want:
        ctx.fail('top-setter', mech='accepted-nonvariable' if ok else 'refused-variable',
                 detail=dict(det, new_top=nt, accepted=ok))
    elif ok:
        want_top = nt if nt is not None else (m.triples[0][0] if m.triples else None)
        if g2.top != want_top:
            ctx.fail('top-setter:value', detail=dict(det, new_top=nt, got=g2.top))
    else:
        # refused means refused: the graph is what it was (top, re-entrancy counts, and what a later
        # difference makes of the top)
        if g2.top != g.top or g2.reentrancies() != g.reentrancies() or g2.triples != g.triples:
            ctx.fail('top-setter:refused-but-changed', detail=dict(det, new_top=nt, top_before=g.top, top_after=g2.top))
        elif g.triples:
            from penman.graph import Graph as _G
            first = _G([g.triples[0]])
            try:
                a_, b_ = (g2 - first), (g - first)
                same = (a_.top == b_.top)
            except Exception:
                same = True
            if not same:
                ctx.fail('top-setter:refused-but-changed', mech='later-difference',
                         detail=dict(det, new_top=nt, got=a_.top, want=b_.top))


def snap(g):
    return canon.canon(g)


def markers(g, t):
    return tuple(canon.marker(x) for x in g.epidata.get(t, []))


def check_binop(ctx, op, g, m, h, mh, det):
    """apply op to real (g,h) and model (m,mh); returns (real result, model result)"""
    ctx.count('op:' + op)
    sg, sh = snap(g), snap(h)
    inplace = op in ('|=', '-=')
    try:
        if op == '|':
            u = g | h
        elif op == '|=':
            u = g
            u |= h
        elif op == '-':
            u = g - h
        else:
            u = g
            u -= h
    except Exception as e:
        ctx.fail(f'{op}:unexpected-exception', mech=type(e).__name__, detail=dict(det, exc=repr(e)))
        return None, None
    if op in ('|', '|='):
        mu = m.union(mh, inplace=inplace)
    else:
        mu = m.difference(mh, inplace=inplace)
    d2 = dict(det, op=op, left=m.triples if not inplace else None, right=mh.triples)
    if not isinstance(u, Graph):
        ctx.fail(f'{op}:result-type', detail=d2)
        return None, None
    if inplace:
        if u is not g:
            ctx.fail(f'{op}:not-in-place', detail=d2)
    else:
        if snap(g) != sg:
            ctx.fail(f'{op}:left-operand-mutated', detail=d2)
        if h is g and snap(h) != sh:
            ctx.fail(f'{op}:operand-mutated', detail=d2)
        if u is g:
            ctx.fail(f'{op}:returned-operand', detail=d2)
    if h is not g and snap(h) != sh:
        ctx.fail(f'{op}:right-operand-mutated', detail=d2)
    if list(u.triples) != mu.triples:
        ctx.fail(f'{op}:triples', detail=dict(d2, got=u.triples, want=mu.triples))
        return u, mu
    xtop = getattr(u, '_top', None)
    if u.top != mu.top or (hasattr(u, '_top') and xtop != mu.xtop):
        ctx.fail(f'{op}:top', detail=dict(d2, got=u.top, want=mu.top, explicit=xtop, want_explicit=mu.xtop))
    # markers
    if op in ('|', '|='):
        hset = set(mh.triples) | set(mh.epi)
        for q in set(mu.triples):
            got = markers(u, q)
            if q in mu.added:
                want = [mh.epi.get(q, ())]
            elif q not in hset:
                want = [mu.epi.get(q, ())]     # still the left operand's markers
            else:
                want = [mu.epi.get(q, ()), mh.epi.get(q, ())]
            if got not in want:
                ctx.fail(f'{op}:markers', mech='added' if q in mu.added else 'kept',
                         detail=dict(d2, triple=q, got=got, want=want))
            mu.epi[q] = got     # follow the permitted choice
            if not got:
                mu.epi.pop(q, None)
    else:
        for q in mu.triples:
            if markers(u, q) != mu.epi.get(q, ()):
                ctx.fail(f'{op}:markers-of-kept-triple-changed', detail=dict(d2, triple=q))
        for q in set(mh.triples):
            if q in u.epidata:
                ctx.fail(f'{op}:markers-of-removed-triple-left', detail=dict(d2, triple=q))
    if not inplace and dict(u.metadata) != {}:
        pass   # documented: the result of | and - carries no metadata (not part of C15)
    return u, mu


def rand_graph(rng, n=None, tops=TOPS):
    n = rng.randrange(0, 6) if n is None else n
    tr = [(rng.choice(SRC), rng.choice(ROLES), rng.choice(TGT)) for _ in range(n)]
    top = rng.choice(tops)
    ep = {}
    for t in tr:
        t2 = (t[0], colon(t[1]), t[2])
        if rng.random() < .4:
            ep[t2] = [rng.choice([POP, Push(t2[0]), Pop()])]
    meta = {'k': 'v'} if rng.random() < .5 else None
    return tr, top, ep, meta


def oracle(ctx, kind, p):
    install_invariant()
    if kind == 'exh':
        pool = [(s, r, t) for s in SRC for r in ROLES for t in TGT]
        idx = -1
        for L in range(p.get('minlen', 0), p['maxlen'] + 1):
            for triples in itertools.product(pool, repeat=L):
                idx += 1
                if idx % p['stride'] or (idx // p['stride']) % p['mod'] != p['rem']:
                    continue
                for top in TOPS:
                    ctx.current = ['g', {'triples': [list(t) for t in triples], 'top': top}]
                    try:
                        g, m = mk(triples, top)
                    except InvariantBroken as e:
                        ctx.fail('invariant', detail=repr(e))
                        continue
                    det = {'triples': list(triples), 'top': top}
                    check_queries(ctx, g, m, det)
                    ctx.enumerated(nontrivial=L >= 2)
                if L and idx % 3 == 0:
                    g, m = mk(triples, None)
                    for nt in ('a', 'x', None, 7):
                        check_top_setter(ctx, g, m, nt, {'triples': list(triples)})
        if not p.get('partial'):
            ctx.exhaustive[f"triple-lists len<={p['maxlen']} over 108 triples x 5 tops (shard slice)"] = idx + 1
    elif kind == 'g':
        g, m = mk([tuple(t) for t in p['triples']], p['top'])
        check_queries(ctx, g, m, p)
        ctx.case(p, True)
    elif kind == 'rand':
        rng = ctx.rng('rand', p['i'])
        tr, top, ep, meta = rand_graph(rng)
        g, m = mk(tr, top, ep, meta)
        det = {'triples': tr, 'top': top}
        check_queries(ctx, g, m, det)
        check_filters(ctx, g, m, rng, det)
        check_top_setter(ctx, g, m, rng.choice(['a', 'b', 'c', 'x', 'zz', None, 7]), det)
        # __eq__ as documented
        tr2, top2, ep2, meta2 = rand_graph(rng) if rng.random() < .5 else (list(tr), top, {}, None)
        if rng.random() < .3:
            rng.shuffle(tr2)
        h, mh = mk(tr2, top2, ep2, meta2)
        want = (m.top == mh.top and len(m.triples) == len(mh.triples) and set(m.triples) == set(mh.triples))
        ok, eq = ctx.call(lambda: g == h, clause='__eq__')
        if ok and bool(eq) != want:
            ctx.fail('__eq__', detail=dict(det, other=tr2, other_top=top2, got=eq, want=want))
        if p['i'] % 20 == 0:
            before = snap(g)
            for other in (5, None, 'x', [('a', ':R', 'b')]):
                for opn, f in (('|', lambda: g | other), ('-', lambda: g - other)):
                    try:
                        f()
                        ctx.fail(f'{opn}:non-graph-operand-accepted', detail=dict(det, other=repr(other)))
                    except TypeError:
                        pass
                    except Exception as e:
                        ctx.fail(f'{opn}:non-graph-operand:{type(e).__name__}', detail=dict(det, other=repr(other)))
            if snap(g) != before:
                ctx.fail('operand-mutated-by-rejected-operation', detail=det)
            ctx.count('non_graph_operands')
        ctx.case((tr, top), len(tr) >= 2)
        if ctx.want_sample() and len(tr) >= 4:
            ctx.sample({'triples': tr, 'top': top, 'variables': sorted(m.variables(), key=repr),
                        'reentrancies': m.reentrancies()})
    elif kind == 'hist':
        rng = ctx.rng('hist', p['i'])
        pool = []
        shared = [(rng.choice(SRC), rng.choice(ROLES), rng.choice(TGT)) for _ in range(3)]
        for _ in range(3):
            tr, top, ep, meta = rand_graph(rng, tops=[None, None, 'a', 'b'])
            extra_sh = rng.sample(shared, rng.randrange(0, 4))
            tr = tr + extra_sh
            for t in extra_sh:
                # a triple that several graphs of the pool have, each with markers of its own
                t2 = (t[0], colon(t[1]), t[2])
                if rng.random() < .6:
                    from penman.surface import Alignment
                    ep[t2] = [rng.choice([POP, Push(t2[0]), Alignment((rng.randrange(9),))])]
            rng.shuffle(tr)
            pool.append(mk(tr, top, ep, meta))
        if p['i'] % 7 == 0:
            # the same object on both sides
            g0, m0 = pool[0]
            for op in (['-=', '|='], ['|=', '-='], ['-'], ['|'])[p['i'] % 4]:
                det = {'history': [[op, 0, 0]], 'same_object': True}
                u, mu = check_binop(ctx, op, g0, m0, g0, m0.copy() if op in ('|=', '-=') else m0, det)
                if u is None:
                    break
                if op in ('|=', '-='):
                    mu.epi = {t: markers(u, t) for t in u.epidata if markers(u, t)}
                    check_queries(ctx, u, mu, det)
                    if op == '-=' and u.epidata:
                        ctx.fail('-=:markers-of-removed-triple-left', mech='same-object',
                                 detail=dict(det, left=repr(u.epidata)[:300]))
            ctx.count('same_object_operands')
            pool[0] = mk(m0.triples if False else [t for t in pool[1][1].triples], None)
        nsteps = rng.randrange(1, 7)
        history = []
        # half of the histories query only at the end (after warming every graph up with one
        # query), so that state cached by an early query is still there when it matters
        deferred = rng.random() < 0.5
        if deferred:
            ctx.count('deferred_query_histories')
            for g0, m0 in pool:
                check_queries(ctx, g0, m0, {'history': 'warm-up'})
        for step in range(nsteps):
            i, j = rng.randrange(3), rng.randrange(3)
            if i == j:
                j = (j + 1) % 3
            op = rng.choice(['|', '|=', '-', '-=', '|', '-', 'top'])
            g, m = pool[i]
            h, mh = pool[j]
            det = {'history': history + [[op, i, j]], 'step': step}
            ctx.count('history_steps')
            if op == 'top':
                nt = rng.choice(['a', 'b', 'c', 'x', None])
                history.append([op, i, nt])
                check_top_setter(ctx, g, m, nt, det)
                if m.can_set_top(nt):
                    try:
                        g.top = nt
                        m.xtop = nt
                    except GraphError:
                        pass
                continue
            history.append([op, i, j])
            third = 3 - i - j
            by_before = snap(pool[third][0])
            u, mu = check_binop(ctx, op, g, m, h, mh, det)
            if snap(pool[third][0]) != by_before:
                # a graph that is not even an operand of this call (it was one earlier in the history)
                ctx.fail(f'{op}:bystander-graph-changed', mech='history',
                         detail=dict(det, bystander=third, before=repr(by_before)[:300],
                                     after=repr(snap(pool[third][0]))[:300]))
            if u is None:
                break
            # the real epidata is the state we continue from; resync model markers
            mu.epi = {t: markers(u, t) for t in u.epidata if markers(u, t)}
            k = rng.randrange(3)
            if op in ('|', '-'):
                pool[k] = (u, mu)       # result replaces some graph of the pool
            if not deferred:
                check_queries(ctx, u, mu, det)
        if deferred:
            for g0, m0 in pool:
                m0.epi = {t: markers(g0, t) for t in g0.epidata if markers(g0, t)}
                check_queries(ctx, g0, m0, {'history': history, 'queried': 'at the end only'})
                check_top_setter(ctx, g0, m0, rng.choice(['a', 'b', 'c', 'x', None]), {'history': history})
        ctx.case(history, nsteps >= 2)
        if ctx.want_sample() and nsteps >= 4:
            ctx.sample({'history': history, 'initial': [m.triples for _, m in pool]})
    ctx.counters['invariant_checks'] = _inv_checks[0]
