"""C11 - edge reification and dereification are mutually inverse.

Events that refute: r = reify_edges(g, m) with a reifiable role left, a 'new'
variable that already existed, a changed top, or a lost/changed other triple;
d = dereify_edges(r, m) with encode(d) != encode(g) (alignments are in the
text); a collapsed node that had a third relation, was the top, or was
referenced elsewhere."""
import penman
from penman import layout, transform, surface
from penman.graph import Graph
from penman.tree import Tree

from pmon.gen import graphs as G, trees as T, models as M
from pmon.checks import _trees

ID = 'C11'
RULE = ('graphs decoded from WF-T trees over the AMR role inventory (reifiable roles on edges, '
        'attributes, inverted edges, re-entrancies, aligned roles/targets, pre-existing variables _ '
        'and _2; every 8th graph is a hub with 11-16 reifiable relations so that generated variables '
        'reach two-digit indices) with no dereifiable concept initially and only roles whose reification is '
        'unambiguous in the model (this excludes :subset/:superset under AMR); models AMR, mini-AMR, '
        'random unambiguous tables, default (no-op case); second workload: explicit reified nodes '
        'in six situations {plain, extra relation, is top, referenced, wrong roles, one relation}. '
        'Non-trivial: the graph has >=1 reifiable triple (first workload) / always (second).')
ANCHORS = ['penman.transform:reify_edges', 'penman.transform:dereify_edges',
           'penman.transform:_dereify_agenda', 'penman.transform:_edge_markers',
           'penman.transform:_reified_markers', 'penman.model:Model.reify', 'penman.model:Model.dereify']
PROBES = {'C17': 6}
MIN_EVAL = {'quick': 3000, 'thorough': 60000}
REQUIRED_COUNTERS = ['with_reifiable', 'inverted_reifiable', 'aligned_reifiable', 'kind:plain', 'wide_graphs',
                     'kind:referenced', 'kind:top', 'kind:extra']
MODELS_R = ['amr', 'amr', 'mini', 'amr', 'rand1', 'rand2', 'rand3', 'rand5', 'default', 'rand10', 'altconcept']
AMR_ROLES = [':ARG0', ':ARG1', ':ARG2', ':mod', ':domain', ':op1', ':op2', ':polarity', ':quant',
             ':name', ':consist-of', ':time', ':location', ':poss', ':beneficiary', ':role',
             ':employed-by', ':accompanier', ':age', ':cause', ':subset', ':superset', ':degree',
             ':li', ':meaning', ':r0', ':r1', ':r2', ':k', ':m-n']
CONCEPTS = ['alpha', 'beta', 'bark-01', 'i', 'a', 'b', '"str"', '7', 'A', '_']


def cases(ctx):
    q = ctx.tier == 'quick'
    n = 2500 if q else 40000
    ctx.new_phase()
    for i in range(n):
        if not ctx.time_left():
            break
        yield 'rand', {'i': i}
        yield 'node', {'i': i}


def collapsible_nodes(g, rm):
    """variables of nodes that dereification may collapse (reference reading of the documentation): a
    concept of the table, exactly two relations whose roles are a pair of that concept (either way
    round), not the top, not the target of any relation"""
    out = []
    targets = {t for s_, r_, t in g.triples if r_ != ':instance'}
    for v, _, c in [t for t in g.triples if t[1] == ':instance']:
        if not rm.dereifiable(c) or v == g.top or v in targets:
            continue
        rels = [t for t in g.triples if t[0] == v and t[1] != ':instance']
        if len(rels) != 2:
            continue
        pair = {rels[0][1], rels[1][1]}
        if any({d[1], d[2]} == pair for d in rm.dereifications(c)):
            out.append(v)
    return out


def role_pool(rm):
    return [r for r in AMR_ROLES if (not rm.reifiable(r)) or rm.unambiguous(r)]


def check_graph(ctx, g, mname, node=None):
    _, model, rm, _ = M.get(mname)
    reif = {r for r in AMR_ROLES if rm.reifiable(r)}
    ok, s0 = ctx.call(penman.encode, g, model=model, indent=None, clause='encode')
    if not ok:
        return
    ok, r = ctx.call(transform.reify_edges, g, model, clause='reify_edges', n=len(g.triples))
    if not ok:
        return
    nre = sum(1 for tr in g.triples if tr[1] in reif)
    if nre:
        ctx.count('with_reifiable')
        if any(tr[1] in reif and layout.appears_inverted(g, tr) for tr in g.triples):
            ctx.count('inverted_reifiable')
        if any(tr[1] in reif and any(type(m).__name__.endswith('Alignment') for m in g.epidata.get(tr, []))
               for tr in g.triples):
            ctx.count('aligned_reifiable')
    left = [tr for tr in r.triples if rm.reifiable(tr[1])]
    if left:
        ctx.fail('reify:reifiable-role-left', detail={'text': s0, 'left': left, 'model': mname})
    newv = r.variables() - g.variables()
    if len(newv) != nre:
        ctx.fail('reify:fresh-variables', mech='count',
                 detail={'text': s0, 'new': sorted(newv), 'reifiable_triples': nre, 'model': mname})
    for v in newv:
        mine = [tr for tr in r.triples if tr[0] == v]
        if len(mine) != 3 or sum(1 for tr in mine if tr[1] == ':instance') != 1:
            ctx.fail('reify:new-node-shape', detail={'text': s0, 'node': mine})
    if r.top != g.top:
        ctx.fail('reify:top', detail={'text': s0, 'got': r.top, 'want': g.top})
    kept = [tr for tr in g.triples if tr[1] not in reif]
    if [tr for tr in r.triples if tr[0] not in newv] != kept:
        ctx.fail('reify:other-triples-changed', detail={'text': s0, 'got': r.triples, 'kept': kept})
    for tr in kept:
        if r.epidata.get(tr) != g.epidata.get(tr):
            ctx.fail('reify:other-markers-changed', detail={'text': s0, 'triple': tr})
    ok, d = ctx.call(transform.dereify_edges, r, model, clause='dereify_edges', n=len(r.triples))
    if not ok:
        return
    if G.graph_content(d, rm) != G.graph_content(g, rm) or d.triples != g.triples:
        ctx.fail('dereify(reify(g)):content', mech='content',
                 detail={'text': s0, 'got': d.triples, 'want': g.triples, 'model': mname})
    for ind in (None, -1, 2):
        ok1, a = ctx.call(penman.encode, d, model=model, indent=ind, clause='encode(dereified)')
        ok2, b = ctx.call(penman.encode, g, model=model, indent=ind, clause='encode')
        if ok1 and ok2 and a != b:
            ctx.fail('dereify(reify(g)):text', mech='text',
                     detail={'original': b[:400], 'restored': a[:400], 'model': mname})
            break
    # piped composition: content and alignment maps (layout may differ, DESIGN O7)
    ok, s1 = ctx.call(penman.encode, r, model=model, indent=None, clause='encode(reified)')
    if not ok:
        return
    ok, r2 = ctx.call(penman.decode, s1, model=model, clause='decode(reified)')
    if not ok:
        return
    if G.graph_content(r2, rm) != G.graph_content(r, rm):
        ctx.fail('reified-graph-not-faithful', detail={'text': s0, 'reified': s1[:400]})
    ok, d2 = ctx.call(transform.dereify_edges, r2, model, clause='dereify_edges(piped)')
    if not ok:
        return
    if G.graph_content(d2, rm) != G.graph_content(g, rm):
        ctx.fail('piped:content', detail={'text': s0, 'reified': s1[:400], 'got': d2.triples})
    for acc in (surface.alignments, surface.role_alignments):
        a = sorted(map(repr, acc(d2).items()))
        b = sorted(map(repr, acc(g).items()))
        if a != b:
            ctx.fail('piped:alignments', mech=acc.__name__,
                     detail={'text': s0, 'reified': s1[:400], 'got': a[:6], 'want': b[:6]})
    return nre


def oracle(ctx, kind, p):
    if kind == 'rand':
        rng = ctx.rng('rand', p['i'])
        mname = MODELS_R[p['i'] % len(MODELS_R)]
        _, model, rm, _ = M.get(mname)
        concepts = [c for c in CONCEPTS if not rm.dereifiable(c)]
        lookalikes = p['i'] % 5 == 2
        if lookalikes:
            # nodes that *look* like reified relations (a concept of the table) but are not collapsible:
            # roles that do not fit, a third relation, the top, a node referred to elsewhere
            concepts = concepts + sorted({r[1] for r in rm.reifications}) * 2
        if p['i'] % 8 == 7:
            # enough reifiable relations for the generated variables to reach _10, _11 ...
            pool = [r for r in role_pool(rm) if rm.reifiable(r)] or role_pool(rm)
            node = T.wide_tree(rng, rm, pool)
            ctx.count('wide_graphs')
        else:
            node = T.rand_tree(rng, rm, roles=role_pool(rm), concepts=concepts, p_aln=0.3)
        if not _trees.wellformed(node, rm):
            return
        ok, g = ctx.call(layout.interpret, Tree(node), model, clause='pre-interpret')
        if not ok:
            return
        if lookalikes:
            if collapsible_nodes(g, rm):
                ctx.count('skipped:collapsible-node-in-input')
                return
            if any(rm.dereifiable(t) for s_, r_, t in g.triples if r_ == ':instance'):
                ctx.count('lookalike_relation_nodes')
        if p['i'] % 3 == 1:
            # alignments added afterwards the way docs/library.rst shows (appended to the triple's marker
            # list, hence *after* the layout markers): the same graph, the same text
            from penman.surface import AlignmentMarker
            moved = 0
            for t_, ms in g.epidata.items():
                alns = [m_ for m_ in ms if isinstance(m_, AlignmentMarker)]
                if alns and len(alns) < len(ms) and rng.random() < 0.7:
                    ms[:] = [m_ for m_ in ms if not isinstance(m_, AlignmentMarker)] + alns
                    moved += 1
            if moved:
                ctx.count('alignments_after_layout_markers')
        nre = check_graph(ctx, g, mname, node)
        ctx.case(ctx.current, bool(nre))
        ctx.count('model:' + ('rand' if mname.startswith('rand') else mname))
        if ctx.want_sample() and nre and nre >= 2:
            ctx.sample({'text': penman.format(Tree(node), indent=None)[:300], 'model': mname,
                        'reifiable_triples': nre})
    elif kind == 'node':
        rng = ctx.rng('node', p['i'])
        mname = ['amr', 'mini', 'rand1', 'rand2', 'rand3'][p['i'] % 5]
        _, model, rm, _ = M.get(mname)
        cands = [r for r in rm.reifications if rm.unambiguous(r[0]) and rm.first_reification(r[0]) == tuple(r[1:])]
        if not cands:
            return
        role, concept, sr, tr = rng.choice(cands)
        tri = [('a', ':instance', 'alpha'), ('b', ':instance', 'beta'), ('a', ':ARG0', 'b')]
        tgt = rng.choice(['b', '7', '"s"'])
        rel = [('r', sr, 'a'), ('r', ':instance', concept), ('r', tr, tgt)]
        rng.shuffle(rel)
        k = rng.choice(['plain', 'extra', 'top', 'referenced', 'wrongroles', 'one', 'selfref'])
        if k == 'selfref':
            # one of its two arguments is the node itself: it is referenced, hence protected
            rel = [x if x[1] != tr else ('r', tr, 'r') for x in rel]
        if k == 'extra':
            # a third relation - possibly repeating one of the two argument roles
            rel.append(('r', rng.choice([':polarity', ':ARG3', ':time', tr, sr]), rng.choice(['-', 'a', '8'])))
            if len(set(rel)) != len(rel):
                rel = list(dict.fromkeys(rel)) + [('r', ':ARG3', '-')]
        if k == 'referenced':
            tri.append(('b', ':ARG1', 'r'))
        if k == 'wrongroles':
            rel = [x if x[1] != tr else ('r', ':ARG5', x[2]) for x in rel]
        if k == 'one':
            rel = [x for x in rel if x[1] != tr]
        triples = tri[:]
        if rng.random() < 0.5:
            pos = rng.randrange(0, len(triples) + 1)
            triples[pos:pos] = rel
        else:
            # the node's triples are not next to each other (a relation written from elsewhere before
            # the node itself, edited or shuffled graphs)
            for x in rel:
                triples.insert(rng.randrange(0, len(triples) + 1), x)
            ctx.count('scattered_relation_node')
        g = Graph(triples, top='r' if k == 'top' else 'a')
        ctx.count('kind:' + k)
        ok, d = ctx.call(transform.dereify_edges, g, model, clause='dereify_edges(explicit)')
        ctx.case((mname, triples, k), True)
        if not ok:
            return
        collapsed = 'r' not in d.variables()
        if k == 'plain':
            if not collapsed:
                ctx.fail('dereify:plain-node-not-collapsed', detail={'triples': triples, 'got': d.triples, 'model': mname})
            elif ('a', role, tgt) not in d.triples or len(d.triples) != len(triples) - 2:
                ctx.fail('dereify:plain-node-wrong-result', detail={'triples': triples, 'got': d.triples, 'model': mname})
        elif collapsed or d.triples != g.triples:
            ctx.fail('dereify:collapsed-protected-node', mech=k,
                     detail={'situation': k, 'triples': triples, 'got': d.triples, 'model': mname})
        if d.top != g.top:
            ctx.fail('dereify:top', detail={'triples': triples, 'got': d.top})
