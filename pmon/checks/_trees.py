"""Shared tree-level workloads and oracles (C02, C04, C14, C01)."""
import itertools

import penman
from penman import layout
from penman.tree import Tree

from pmon.gen import trees as T, models as M
from pmon.ref import interp
from pmon import probe

ROLES3 = [':R', ':R-of', ':S']
VS3 = ['a', 'b', 'c']


def shapes(n):
    """parent vectors of ordered rooted trees with nodes 0..n-1 in DFS preorder"""
    if n == 1:
        yield []
        return

    def rec(parents, stack):
        i = len(parents) + 1
        if i == n:
            yield list(parents)
            return
        for d in range(len(stack)):
            p = stack[d]
            yield from rec(parents + [p], stack[:d + 1] + [i])
    yield from rec([], [0])


def small_trees(nmax=3, kmax=2, consts=('x',), concepts=('A', None, 'NOSLASH')):
    """Enumerate small trees (not yet filtered for well-formedness): n<=nmax
    nodes over variables a,b,c; child roles and up to kmax extra branches over
    {:R,:R-of,:S} with targets {every variable} + consts; each node with a
    concept, with '/ (empty)', or with no concept branch; extras before or
    after the children."""
    for n in range(1, nmax + 1):
        vs = VS3[:n]
        for parents in shapes(n):
            for croles in itertools.product(ROLES3, repeat=n - 1):
                for cpts in itertools.product(concepts, repeat=n):
                    pool = [(v, r, t) for v in vs for r in ROLES3 for t in vs + list(consts)]
                    for k in range(0, kmax + 1):
                        for extras in itertools.combinations(pool, k):
                            for lk in ((0, 1) if k else (0,)):
                                yield _build(vs, parents, croles, cpts, extras, lk)


def _build(vs, parents, croles, cpts, extras, lk):
    n = len(vs)

    def build(i):
        v = vs[i]
        br = []
        if cpts[i] == 'A':
            br.append(('/', 'A' if i else 'a'))     # top concept spelled like a variable
        elif cpts[i] is None:
            br.append(('/', None))
        kids = [(croles[j - 1], build(j)) for j in range(1, n) if parents[j - 1] == i]
        ex = [(r, t) for (s, r, t) in extras if s == v]
        br.extend(ex + kids if lk else kids + ex)
        return (v, br)
    return build(0)


def wellformed(node, rm):
    """WF-T check by the reference reading: denoted triples pairwise distinct,
    each variable defined once, no inverted self-loop, R-canon roles."""
    ns = T.nodes(node)
    vs = [n[0] for n in ns]
    if len(set(vs)) != len(vs):
        return False
    top, triples, occ = interp.interpret(node, rm)
    if len(set(triples)) != len(triples):
        return False
    if not rm.noop:
        for v, brs in ns:
            for r, t in brs:
                if not isinstance(t, tuple) and r != '/':
                    a, _ = interp.split_atom(t)
                    if a == v and rm.inverted(r.partition('~')[0]):
                        return False
    return True


# ---------------------------------------------------------------- C14 reference

def ref_diag(node, rm):
    """rows (triple, context variable, pushed variable or None, appears inverted)
    in triple order, known from the text alone."""
    variables = interp.tree_vars(node)
    rows = []

    def walk(nd):
        v, br = nd
        start = len(rows)
        has = False
        for role, t in br:
            r, _ = interp.split_role(role)
            if r == ':instance':
                has = True
            if isinstance(t, tuple):
                inv = rm.inverted(r) and not rm.noop
                tr = (t[0], rm.invert_role(r), v) if inv else (v, r, t[0])
                rows.append((tr, v, t[0], inv))
                walk(t)
            else:
                a, _ = interp.split_atom(t)
                inv = rm.inverted(r) and a in variables and not rm.noop
                tr = (a, rm.invert_role(r), v) if inv else (v, r, a)
                rows.append((tr, v, None, inv))
        if not has:
            rows.insert(start, ((v, ':instance', None), v, None, False))
    walk(node)
    return rows


def make_twins(rng, node, role=':tw'):
    """Two trees with the same top and the same triples in the same order but different
    layouts: t1 writes (v :tw u) as an inverted re-entrancy ':tw-of v' in u right after the
    nested node v; t2 writes it as the last branch ':tw u' inside v.  None if the tree has no
    nested node."""
    cands = []

    def scan(nd, path):
        for j, (r, t) in enumerate(nd[1]):
            if isinstance(t, tuple):
                if t[0] is not None and nd[0] is not None and t[0] != nd[0]:
                    cands.append(path + (j,))
                scan(t, path + (j,))
    scan(node, ())
    if not cands:
        return None
    path = rng.choice(cands)

    def rebuild(nd, path, variant):
        v, br = nd
        j = path[0]
        out = list(br)
        if len(path) == 1:
            r, child = out[j]
            if variant == 1:
                out.insert(j + 1, (role + '-of', child[0]))
            else:
                out[j] = (r, (child[0], list(child[1]) + [(role, v)]))
        else:
            out[j] = (out[j][0], rebuild(out[j][1], path[1:], variant))
        return (v, out)
    return rebuild(node, path, 1), rebuild(node, path, 2)


# ---------------------------------------------------------------- oracles

def payload(node, mname, **kw):
    d = {'tree': T.to_json(node), 'model': mname}
    d.update(kw)
    return ['tree', d]


def c04(ctx, node, mname, meta=None, model_rm=None):
    if model_rm is not None:
        model, rm = model_rm
    else:
        _, model, rm, _ = M.get(mname)
    tree = Tree(node, metadata=dict(meta or {}))
    ok, g = ctx.call(probe.original(layout.interpret), tree, model, clause='interpret')
    if not ok:
        return None
    d = probe.interpret_disagreement(tree, model, g)
    if d and d != 'skip':
        ctx.fail('interpret!=reference', mech=d.split()[0],
                 detail={'text': _fmt(node), 'model': mname, 'diff': d[:700]},
                 payload=payload(node, mname))
    if ctx.evaluations % 6 == 0 and d != 'skip':
        # "decoding a text": every way of decoding the text under the model gives this graph
        ok_f, s = ctx.call(penman.format, tree, clause='format')
        same = False
        if ok_f:
            try:
                # (the reference parser decides whether the text says what the tree says: the library's
                #  own parser is one of the things under test)
                from pmon.ref import lexer as _R
                rn = _R.ref_parse(s)[0]
                same = rn == T.norm_tree(node) or rn == node
            except Exception:
                same = False
        if same:
            from pmon import canon
            codec = penman.PENMANCodec(model=model)
            want_sig = canon.graph_sig(g)[:3]      # top, triples, markers (metadata: C01/C09)
            forms = (('penman.decode', lambda: penman.decode(s, model=model)),
                     ('codec.decode', lambda: codec.decode(s)),
                     ('penman.loads', lambda: penman.loads(s, model=model)[0]),
                     ('penman.iterdecode', lambda: next(iter(penman.iterdecode(s, model=model)))),
                     ('codec.iterdecode(lines)', lambda: list(codec.iterdecode(s.split('\n')))[0]))
            for fname, f in forms:
                okd, gd = ctx.call(f, clause='decode-forms:' + fname)
                ctx.count('decode_forms')
                if okd and canon.graph_sig(gd)[:3] != want_sig:
                    ctx.fail('decode-forms-disagree', mech=fname,
                             detail={'text': s[:400], 'model': mname, 'form': fname,
                                     'got': repr(gd.triples)[:300], 'interpret': repr(g.triples)[:300]},
                             payload=payload(node, mname))
    # public accessors report the same alignments
    from penman import surface
    ok1, al = ctx.call(surface.alignments, g, clause='alignments')
    ok2, ral = ctx.call(surface.role_alignments, g, clause='role_alignments')
    if ok1 and ok2 and d != 'skip':
        top, triples, occ = interp.interpret(node, rm)
        want = interp.first_wins(triples, occ)
        got = {}
        for tr, a in ral.items():
            got.setdefault(tr, []).append(('role', (a.prefix, tuple(a.indices))))
        for tr, a in al.items():
            got.setdefault(tr, []).append(('target', (a.prefix, tuple(a.indices))))
        # accessors keep one alignment per triple and kind: compare as sets
        w = {k: sorted(set(v)) for k, v in want.items()}
        gg = {k: sorted(set(v)) for k, v in got.items()}
        if gg != w:
            ctx.fail('alignments()!=reference', mech='accessors',
                     detail={'text': _fmt(node), 'got': repr(gg)[:400], 'reference': repr(w)[:400]},
                     payload=payload(node, mname))
    return g


def c02(ctx, node, mname, meta=None):
    _, model, rm, _ = M.get(mname)
    tree = Tree(node, metadata=dict(meta or {}))
    ok, g = ctx.call(layout.interpret, tree, model, clause='interpret')
    if not ok:
        return None
    ok, t2 = ctx.call(layout.configure, g, model=model, clause='configure',
                      n=len(g.triples) if ctx.evaluations % 10 == 0 else None)
    if not ok:
        return None
    want = T.norm_tree(node)
    if t2.node != want:
        ctx.fail('configure(interpret(t))!=t', mech=_diffkind(t2.node, want),
                 detail={'text': _fmt(node), 'model': mname, 'got': _fmt(t2.node)},
                 payload=payload(node, mname, meta=meta))
    if dict(t2.metadata) != dict(meta or {}):
        ctx.fail('metadata-lost', detail={'meta': meta, 'got': dict(t2.metadata)},
                 payload=payload(node, mname, meta=meta))
    if mname == 'default' and ctx.evaluations % 4 == 0:
        # leaving the model out means the default model
        ok, g0 = ctx.call(penman.interpret, tree, clause='interpret(no model)')
        ok2, t0 = ctx.call(penman.configure, g, clause='configure(no model)')
        if ok and ok2 and (list(g0.triples) != list(g.triples) or t0.node != t2.node):
            ctx.fail('no-model-argument!=default-model', detail={'text': _fmt(node)},
                     payload=payload(node, mname, meta=meta))
    return g


def c02_codec(ctx, node, mname, meta=None, indents=(-1, None, 0, 3)):
    """encode(decode(s)) == format(N(parse(s))) for every indent"""
    _, model, rm, _ = M.get(mname)
    tree = Tree(node, metadata=dict(meta or {}))
    codec = penman.PENMANCodec(model=model)
    for ind in indents:
        s = penman.format(tree, indent=ind)
        ok, g = ctx.call(codec.decode, s, clause='decode')
        if not ok:
            continue
        if list(g.metadata.items()) != list((meta or {}).items()):
            ctx.fail('decode(format(t)):metadata-differs', mech=f'indent={ind}',
                     detail={'s': s[:400], 'got': dict(g.metadata), 'want': dict(meta or {})},
                     payload=payload(node, mname, meta=meta))
        ok, s2 = ctx.call(codec.encode, g, indent=ind, clause='encode')
        if not ok:
            continue
        lines2 = [ln for ln in s2.split('\n') if ln.startswith('# ::')]
        if len(lines2) != len(meta or {}):
            ctx.fail('encode:metadata-lines-lost', mech=f'indent={ind}',
                     detail={'encoded': s2[:400], 'want_keys': list((meta or {}).keys())},
                     payload=payload(node, mname, meta=meta))
        want = penman.format(Tree(T.norm_tree(node), metadata=dict(meta or {})), indent=ind)
        if s2 != want:
            ctx.fail('encode(decode(s))!=normal-form', mech=f'indent={ind}',
                     detail={'s': s[:400], 'got': s2[:400], 'want': want[:400], 'model': mname},
                     payload=payload(node, mname, meta=meta))
        # the module-level API agrees with the codec object
        ok, s3 = ctx.call(lambda: penman.encode(penman.decode(s, model=model), model=model, indent=ind),
                          clause='penman.encode')
        if ok and s3 != s2:
            ctx.fail('penman.encode!=codec.encode', detail={'s': s[:300]},
                     payload=payload(node, mname, meta=meta))


def c02_text(ctx, node, mname, rng):
    """encode(decode(s)) for a text whose metadata comes from hand-written comment lines: the
    metadata written back is what the reference reading of those lines says"""
    from pmon.gen import strings as S
    from pmon.ref import lexer as R
    _, model, rm, _ = M.get(mname)
    lines = [S.comment_line(rng) for _ in range(rng.randrange(1, 4))]
    s = '\n'.join(lines) + '\n' + penman.format(Tree(node), indent=rng.choice([None, -1]))
    try:
        _, ref_meta = R.ref_parse(s)
    except R.Reject:
        return
    ok, g = ctx.call(penman.decode, s, model=model, clause='decode(text)')
    if not ok:
        return
    ok, s2 = ctx.call(penman.encode, g, model=model, clause='encode(decode(text))')
    if not ok:
        return
    want = penman.format(Tree(T.norm_tree(node), metadata=dict(ref_meta)))
    body = lambda x: [ln for ln in x.split('\n') if not ln.startswith('# ::')]
    got_meta = [ln for ln in s2.split('\n') if ln.startswith('# ::')]
    want_meta = ['# ::{}{}'.format(k, ' ' + v if v else v) for k, v in ref_meta.items()]
    if got_meta != want_meta or body(s2) != body(want):
        ctx.fail('encode(decode(text)):metadata-or-layout', mech='metadata' if got_meta != want_meta else 'layout',
                 detail={'text': s[:400], 'got': s2[:400], 'want_metadata_lines': want_meta},
                 payload=['text', {'s': s, 'model': mname}])


def c14(ctx, node, mname):
    _, model, rm, _ = M.get(mname)
    # "a graph decoded from a well-formed tree": by any of the decoding entry points, in turn
    form = ctx.evaluations % 5
    g = None
    if form:
        try:
            s = penman.format(Tree(node))
            from pmon.ref import lexer as _R
            if _R.ref_parse(s)[0] == T.norm_tree(node):
                f = [None,
                     lambda: penman.decode(s, model=model),
                     lambda: penman.PENMANCodec(model=model).decode(s),
                     lambda: penman.loads(s, model=model)[0],
                     lambda: next(iter(penman.iterdecode(s.split('\n'), model=model)))][form]
                ok, g = ctx.call(f, clause='decode(form %d)' % form)
                if not ok:
                    return
                ctx.count('decoded_via_text')
        except Exception:
            g = None
    if g is None:
        ok, g = ctx.call(layout.interpret, Tree(node), model, clause='interpret')
        if not ok:
            return
    rows = ref_diag(node, rm)
    if [r[0] for r in rows] != list(g.triples):
        # C04's business (the diagnostics are defined relative to the reading): reported as an
        # observation of that property's law, never as a C14 violation
        ctx.fail('interpret!=reference', prop='C04', mech='under-C14',
                 detail={'text': _fmt(node), 'model': mname, 'got': repr(g.triples)[:300],
                         'reference': repr([r[0] for r in rows])[:300]}, payload=payload(node, mname))
        return
    ok, ctxs = ctx.call(layout.node_contexts, g, clause='node_contexts')
    if ok:
        want = [r[1] for r in rows]
        if list(ctxs) != want:
            ctx.fail('node_contexts!=text', mech='None' if None in ctxs else 'wrong',
                     detail={'text': _fmt(node), 'got': ctxs, 'want': want, 'model': mname},
                     payload=payload(node, mname))
    seen = set()
    for tr, c, p, inv in rows:
        if tr in seen:
            continue
        seen.add(tr)
        ok, pv = ctx.call(layout.get_pushed_variable, g, tr, clause='get_pushed_variable')
        if ok and pv != p:
            ctx.fail('get_pushed_variable!=text', detail={'text': _fmt(node), 'triple': tr, 'got': pv, 'want': p},
                     payload=payload(node, mname))
        if tr[0] != tr[2]:
            ok, ai = ctx.call(layout.appears_inverted, g, tr, clause='appears_inverted')
            if ok and ai is not inv:
                ctx.fail('appears_inverted!=text', mech=str(inv),
                         detail={'text': _fmt(node), 'triple': tr, 'got': ai, 'want': inv, 'model': mname},
                         payload=payload(node, mname))
    return g


def c14_markerless(ctx, g, payload_):
    """On graphs without markers the diagnostics answer unknown/False"""
    from penman.graph import Graph
    g2 = Graph(list(g.triples), top=g.top)
    vs = g2.variables()
    ok, ctxs = ctx.call(layout.node_contexts, g2, clause='node_contexts(markerless)')
    if ok:
        if len(ctxs) != len(g2.triples) or any(c is not None and c not in vs for c in ctxs):
            ctx.fail('node_contexts(markerless):bad-answer', detail={'got': ctxs}, payload=payload_)
    for tr in g2.triples:
        ok, pv = ctx.call(layout.get_pushed_variable, g2, tr, clause='get_pushed_variable(markerless)')
        if ok and pv is not None:
            ctx.fail('get_pushed_variable(markerless)!=None', detail={'got': pv}, payload=payload_)
        ok, ai = ctx.call(layout.appears_inverted, g2, tr, clause='appears_inverted(markerless)')
        if ok and not isinstance(ai, bool):
            ctx.fail('appears_inverted(markerless):not-bool', detail={'got': repr(ai)}, payload=payload_)


def _fmt(node):
    try:
        return penman.format(Tree(node), indent=None)[:500]
    except Exception:
        return repr(node)[:500]


def _diffkind(a, b):
    na, nb = T.nodes(a), T.nodes(b)
    if len(na) != len(nb):
        return 'node-count'
    if [n[0] for n in na] != [n[0] for n in nb]:
        return 'nesting'
    if [len(n[1]) for n in na] != [len(n[1]) for n in nb]:
        return 'branch-count'
    return 'branch'
