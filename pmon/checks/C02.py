"""C02 - decode then encode reproduces the layout that was written.

Events that refute: a well-formed tree t and model m with
configure(interpret(t, m), model=m) != N(t) (N drops '(a /)' concept slots),
metadata differing, or encode(decode(s)) != format(N(parse(s)))."""
from pmon.gen import trees as T, models as M
from pmon.checks import _trees

ID = 'C02'
RULE = ('well-formed trees (WF-T, DESIGN 3.3): bounded-exhaustive small trees (<=3 nodes over '
        'variables a,b,c, child roles and <=2 extra branches over {:R,:R-of,:S} to every variable '
        'or a constant, nodes with concept / empty concept slot / no concept; quick: <=2 nodes '
        'complete and a seeded residue class of the 3-node trees) under the default and no-op '
        'models, plus seeded random trees to 20 nodes / depth 20 with alignments, re-entrancies, '
        'cycles, inverted attributes, concepts spelled like variables under default, AMR, no-op, '
        'mini-AMR and random role tables. Non-trivial: >=2 nodes and at least one of '
        '{re-entrancy, inverted role, concept-less node with edges, alignment}.')
ANCHORS = ['penman.layout:interpret', 'penman.layout:_interpret_node', 'penman.layout:configure',
           'penman.layout:_configure', 'penman.layout:_preconfigure', 'penman.layout:_configure_node',
           'penman.layout:_find_next', 'penman.layout:_process_epigraph']
MIN_EVAL = {'quick': 3000, 'thorough': 100000}
REQUIRED_COUNTERS = ['wf_trees', 'texts_with_comment_lines']
ASSUMPTIONS = ['well-formedness is decided by the reference reading (pmon/ref/interp.py)']
MODELS_RANDOM = ['default', 'amr', 'noop', 'mini', 'inv', 'both', 'prefix'] + [f'rand{i}' for i in range(12)]


def cases(ctx):
    q = ctx.tier == 'quick'
    if q:
        yield 'exh', {'nmax': 2, 'kmax': 2, 'mod': ctx.nshards, 'rem': ctx.shard}
        m = 97
        yield 'exh', {'nmax': 3, 'kmax': 1, 'only_n': 3, 'mod': m * ctx.nshards,
                      'rem': ctx.rng('res').randrange(m) * ctx.nshards + ctx.shard, 'partial': True}
    else:
        yield 'exh', {'nmax': 3, 'kmax': 2, 'mod': ctx.nshards, 'rem': ctx.shard}
    n = 2500 if q else 40000
    ctx.new_phase()
    for i in range(n):
        if not ctx.time_left():
            break
        yield 'rand', {'i': i}


def oracle(ctx, kind, p):
    if kind == 'exh':
        idx = -1
        for node in _trees.small_trees(p['nmax'], p['kmax']):
            if p.get('only_n') and len(T.nodes(node)) != p['only_n']:
                continue
            idx += 1
            if idx % p['mod'] != p['rem']:
                continue
            for mname in ('default', 'noop'):
                rm = M.get(mname)[2]
                if not _trees.wellformed(node, rm):
                    ctx.count('not_wf')
                    continue
                ctx.current = _trees.payload(node, mname)
                _trees.c02(ctx, node, mname)
                f = T.features(node, rm)
                ctx.enumerated(nontrivial=len(T.nodes(node)) >= 2 and bool(f))
                ctx.count('wf_trees')
                if ctx.want_sample() and len(f) >= 2 and idx % 7 == 0:
                    ctx.sample({'text': _trees._fmt(node), 'model': mname, 'features': sorted(f)})
        if not p.get('partial'):
            ctx.exhaustive[f"small-trees n<={p['nmax']} extras<={p['kmax']} (shard slice)"] = idx + 1
    elif kind == 'tree':
        node = T.from_json(p['tree'])
        _trees.c02(ctx, node, p['model'], p.get('meta'))
        _trees.c02_codec(ctx, node, p['model'], p.get('meta'))
        ctx.case(p['tree'], True)
    elif kind == 'rand':
        rng = ctx.rng('rand', p['i'])
        mname = MODELS_RANDOM[p['i'] % len(MODELS_RANDOM)]
        rm = M.get(mname)[2]
        deep = p['i'] % 7 == 0
        node = T.rand_tree(rng, rm, deep=deep, n_nodes=rng.choice([3, 6, 12, 20]) if deep else None)
        if not _trees.wellformed(node, rm):
            ctx.count('generator_not_wf')
            return
        meta = ({'id': str(p['i']), 'snt': 'x y'} if p['i'] % 10 == 0 else
                {'': 'draft, do not cite', 'k': '', 'snt': '  two leading blanks'} if p['i'] % 10 == 5 else None)
        ctx.current = _trees.payload(node, mname, meta=meta)
        _trees.c02(ctx, node, mname, meta)
        if p['i'] % 4 == 0:
            _trees.c02_codec(ctx, node, mname, meta)
        if p['i'] % 4 == 1:
            _trees.c02_text(ctx, node, mname, rng)
            ctx.count('texts_with_comment_lines')
        f = T.features(node, rm)
        ctx.case(ctx.current, len(T.nodes(node)) >= 2 and bool(f))
        ctx.count('wf_trees')
        for x in f:
            ctx.count('feature:' + x)
        ctx.count('model:' + ('rand' if mname.startswith('rand') else mname))
        if ctx.want_sample() and len(f) >= 3:
            ctx.sample({'text': _trees._fmt(node), 'model': mname, 'features': sorted(f)})
