"""C08 - tokens tile the input and follow the documented lexical grammar.

Events that refute: a line whose tokens overlap, are out of order, carry a
wrong lineno/offset/text, leave a non-blank character uncovered, or carry a
class other than the reference lexer's (both patterns)."""
from pmon.gen import strings as S, trees as T
from pmon.checks import _text

ID = 'C08'
PYTEST_LAW = 'C08'     # also run /repo's own tests with this property's law attached
RULE = ('every string of the bounded-exhaustive corpus (26-character alphabet incl. all six ASCII '
        'blanks, NBSP, U+2028, U+0085, U+3000; quick length<=3 + slices of length 4, thorough '
        'length<=4 complete and length 5/6 over sub-alphabets) plus token sequences and seeded '
        'random Unicode texts, lexed with the graph and the triple-conjunction pattern, as one '
        'string and (random part) as a list of lines with and without terminators; alignment-shaped '
        'texts with unusual prefix letters/digits (long s, Kelvin sign, dotless i, full-width and '
        'Arabic-Indic digits); a sample lexed with DEBUG logging enabled; formatted graphs with # " ~ : / ( ) '
        '\\ ^ , inserted exactly at a token start or end (found with the reference lexer). Non-trivial: '
        'the string yields at least two tokens.')
ANCHORS = ['penman._lexer:lex', 'penman._lexer:_lex']
PROBES = {'C08': 0, 'C07': 0}
MIN_EVAL = {'quick': 20000, 'thorough': 400000}
REQUIRED_COUNTERS = ['tokens', 'alignment_like', 'lexed_with_debug_logging']
ASSUMPTIONS = ['the reference lexer (pmon/ref/lexer.py, no regular expressions) reads the lexical '
               'grammar of docs/notation.rst and the property text correctly']
BATCH = 2000


def cases(ctx):
    q = ctx.tier == 'quick'
    plans = [(S.ALPHA26, L) for L in range(0, 4 if q else 5)]
    plans.append((S.ALPHA10, 4) if q else (S.ALPHA14, 5))
    if not q:
        plans.append((S.ALPHA10, 6))
    b = 0
    for alpha, L in plans:
        total = len(alpha) ** L
        for start in range(0, total, BATCH):
            if ctx.mine(b):
                yield 'strs', {'alpha': alpha, 'len': L, 'start': start, 'count': BATCH, 'sep': ''}
            b += 1
    if q:
        rng = ctx.rng('slice')
        for _ in range(10):
            yield 'strs', {'alpha': S.ALPHA26, 'len': 4, 'start': rng.randrange(26 ** 4 - BATCH),
                           'count': BATCH, 'sep': '', 'partial': True}
    # deep enumeration over two tiny alphabets: string escapes (backslash parity before a quote) and
    # alignment bodies (digits, commas, prefix letter, period)
    for alpha, L in ((['"', '\\', 'a', ' '], 7 if q else 9), (['~', '1', ',', 'e', '.', 'a'], 5 if q else 7)):
        for ln in range(4, L + 1):
            total = len(alpha) ** ln
            for start in range(0, total, BATCH):
                if ctx.mine(b):
                    yield 'strs', {'alpha': alpha, 'len': ln, 'start': start, 'count': BATCH, 'sep': ''}
                b += 1
    toks = S.TOKENS22 + S.TOKENS_EXTRA
    for L in range(0, 3 if q else 4):
        total = len(toks) ** L
        for sep in ('', ' '):
            for start in range(0, total, BATCH):
                if ctx.mine(b):
                    yield 'strs', {'alpha': toks, 'len': L, 'start': start, 'count': BATCH, 'sep': sep}
                b += 1
    n = 3000 if q else 40000
    ctx.new_phase()
    for i in range(n):
        if not ctx.time_left():
            break
        yield 'rand', {'i': i}
        if i % 3 == 0:
            yield 'aln', {'i': i}
        if i % 2 == 0:
            yield 'tokmut', {'i': i}
        if i % 10 == 0:
            yield 'debuglog', {'i': i}


def oracle(ctx, kind, p):
    if kind == 'strs':
        n = 0
        for s in S.batch(p['alpha'], p['len'], p['start'], p['count'], p.get('sep', '')):
            ctx.current = ['str', {'s': s}]
            nt = _text.check_lexer(ctx, s)
            ctx.enumerated(nontrivial=nt >= 2)
            ctx.count('tokens', nt)
            if nt >= 3 and ctx.want_sample():
                ctx.sample({'string': s, 'tokens': nt})
            n += 1
        if not p.get('partial'):
            key = f"len{p['len']}/alphabet{len(p['alpha'])}/sep{p.get('sep', '')!r}"
            ctx.exhaustive[key] = ctx.exhaustive.get(key, 0) + n
    elif kind == 'str':
        nt = _text.check_lexer(ctx, p['s'], as_lines=True)
        ctx.case(p['s'], nt >= 2)
        ctx.count('tokens', nt)
    elif kind == 'aln':
        rng = ctx.rng('aln', p['i'])
        s = rng.choice(['(a / b', '(a :r', '(a / b :r c', 'x', '(a /']) + S.alignment_like(rng) + rng.choice(['', ')', ' )', ' c)'])
        ctx.current = ['str', {'s': s}]
        nt = _text.check_lexer(ctx, s)
        ctx.case(s, nt >= 2)
        ctx.count('tokens', nt)
        ctx.count('alignment_like')
    elif kind == 'tokmut':
        # a well-formed, indented graph text with one lexically significant character inserted
        # exactly at a token start (or end): '#' there starts a comment that runs to the end of the
        # line whatever the line looks like, '"' opens a string, ...
        import penman
        rng = ctx.rng('tokmut', p['i'])
        t = T.rand_tree(rng, allow_empty_target=True, n_nodes=rng.choice([2, 3, 4, 5]))
        s = penman.format(penman.Tree(t), indent=rng.choice([-1, -1, 2, 0, None]))
        s = S.insert_at_token_boundary(rng, s, rng.choice([1, 1, 2]))
        for mode in (False, True):
            ctx.current = ['str', {'s': s}]
            nt = _text.check_lexer(ctx, s, as_lines=mode)
        ctx.case(('tokmut', s), nt >= 2)
        ctx.count('tokens', nt)
        ctx.count('token_start_insertions')
    elif kind == 'debuglog':
        # the token stream must not depend on the logging configuration
        import logging
        import penman
        rng = ctx.rng('debuglog', p['i'])
        t = T.rand_tree(rng, allow_empty_target=True, n_nodes=rng.choice([1, 2, 3]))
        s = penman.format(penman.Tree(t), indent=rng.choice([None, -1]))
        lg = logging.getLogger('penman')
        old_level, old_prop = lg.level, lg.propagate
        h = logging.NullHandler()
        logging.disable(logging.NOTSET)
        lg.addHandler(h)
        lg.propagate = False
        lg.setLevel(logging.DEBUG)
        try:
            ctx.current = ['str', {'s': s, 'logging': 'DEBUG'}]
            nt = _text.check_lexer(ctx, s, as_lines=True)
        finally:
            lg.setLevel(old_level)
            lg.propagate = old_prop
            lg.removeHandler(h)
            logging.disable(logging.CRITICAL)
        ctx.case(('debug', s), nt >= 2)
        ctx.count('tokens', nt)
        ctx.count('lexed_with_debug_logging')
    elif kind == 'rand':
        import penman
        rng = ctx.rng('rand', p['i'])
        if p['i'] % 3 == 0:
            s = S.random_text(rng, 120)
        else:
            t = T.rand_tree(rng, allow_empty_target=True)
            s = penman.format(penman.Tree(t), indent=rng.choice([None, -1, 0, 2]))
            if p['i'] % 3 == 2:
                s = S.corrupt_text(rng, s)
            if p['i'] % 5 == 0:
                s = '\n'.join(S.comment_line(rng) for _ in range(rng.randrange(1, 3))) + '\n' + s
            if p['i'] % 11 == 0:
                s = rng.choice(S.UNI) + s
        ctx.current = ['str', {'s': s}]
        nt = _text.check_lexer(ctx, s, as_lines=True)
        ctx.case(s, nt >= 2)
        ctx.count('tokens', nt)
        if ctx.want_sample() and nt > 4:
            ctx.sample({'string': s[:160], 'tokens': nt})
