"""C06 - layout markers shape the text but never its content; encoding is total.

Events that refute: (a) a connected WF-G graph with corrupted markers whose
encode raises anything, exceeds the step budget, or decodes to another graph;
(b) an arbitrary triple list for which encode raises something other than
LayoutError, or raises / does not raise contrary to the reference
connectivity rule."""
import itertools

import penman
from penman import layout
from penman.graph import Graph
from penman.layout import Push, Pop, POP
from penman.tree import Tree
from penman.exceptions import LayoutError
from pmon import canon

from pmon.gen import graphs as G, trees as T, models as M
from pmon.checks import _graphs

ID = 'C06'
RULE = ('(a) fault injection into layout markers (DESIGN 3.6): 0-5 edits {drop subset, add Push(v) '
        'for a variable or an unknown name, add 1-3 POPs (singleton and fresh instances), swap the '
        'layout-marker lists of two triples, shuffle the triples under fixed markers, duplicate a '
        'marker list, delete whole entries, re-top} applied to decoded, re-topped and hand-built '
        'WF-G graphs of 1-10 variables and to graphs interpreted from random trees with alignments; '
        'every call under the sys.monitoring step budget B(n). (b) arbitrary triple lists: '
        'exhaustive lists of <=3 triples (quick: <=2) over 5 symbols x 4 roles x explicit tops x '
        'requested tops, random lists to 8 triples with random markers. Non-trivial: (a) at least '
        'one corruption applied and >=2 variables; (b) the list is non-empty.')
ANCHORS = ['penman.layout:_preconfigure', 'penman.layout:_configure_node', 'penman.layout:_find_next',
           'penman.layout:_get_or_establish_site', 'penman.layout:configure']
PROBES = {'C17': 10}
MIN_EVAL = {'quick': 5000, 'thorough': 200000}
REQUIRED_COUNTERS = ['a:corrupted', 'b:layout-error', 'b:ok', 'op:push-var', 'op:swap', 'op:shuffle',
                     'op:pops', 'budgeted_calls']
MODELS_A = ['default', 'amr', 'default', 'mini', 'rand1', 'rand2', 'inv', 'both', 'prefix']


def cases(ctx):
    q = ctx.tier == 'quick'
    yield 'exh_lists', {'maxlen': 2 if q else 3, 'mod': ctx.nshards, 'rem': ctx.shard}
    n = 3000 if q else 60000
    ctx.new_phase()
    for i in range(n):
        if not ctx.time_left():
            break
        yield 'corrupt', {'i': i}
        yield 'list', {'i': i}


# ---------------------------------------------------------------- (b) reference rule

SYM = ['a', 'b', 'c', None, 0]
ROLES_B = [':instance', ':R', ':R-of', 'noColon']


def expected(g, top):
    """'ok' | 'layout' by the reference rule (DESIGN C06b)."""
    if not g.triples:
        return 'ok'
    vs = g.variables()
    eff = top if top is not None else g.top
    if eff not in vs:
        return 'layout'
    return 'ok' if G.connected_from(g.triples, eff, vs) else 'layout'


def check_list(ctx, g, top, payload, n=None):
    exp = expected(g, top)
    snap = canon.canon(g) if ctx.evaluations % 4 == 0 else None
    ok, res = ctx.call(penman.encode, g, top=top, indent=None, allowed=(LayoutError,),
                       clause='encode(arbitrary)', n=n)
    if snap is not None:
        # whether it succeeded or failed, the call leaves the graph as it was, and asking again
        # gives the same answer (no partial state survives a refusal)
        if canon.canon(g) != snap:
            ctx.fail('encode:graph-changed', mech='after-error' if not ok else 'after-success',
                     detail={'triples': g.triples, 'top': top}, payload=payload)
        ok2, res2 = ctx.call(penman.encode, g, top=top, indent=None, allowed=(LayoutError,),
                             clause='encode(arbitrary, again)')
        if ok2 != ok or (ok and res2 != res) or (not ok and type(res2) is not type(res)):
            ctx.fail('encode:second-call-differs', detail={'triples': g.triples, 'top': top,
                                                           'first': repr(res)[:200], 'second': repr(res2)[:200]},
                     payload=payload)
    if ok:
        got = 'ok'
    elif isinstance(res, LayoutError):
        got = 'layout'
    else:
        return
    ctx.count('b:ok' if got == 'ok' else 'b:layout-error')
    if got != exp:
        ctx.fail('encode:error-precision', mech=f'{got}-expected-{exp}',
                 detail={'triples': g.triples, 'graph_top': getattr(g, '_top', None), 'top': top,
                         'got': got, 'expected': exp, 'epidata': repr(g.epidata)[:300]},
                 payload=payload)


def oracle(ctx, kind, p):
    if kind == 'exh_lists':
        idx = -1
        pool = [(s, r, t) for s in SYM[:3] for r in ROLES_B for t in SYM]
        for L in range(0, p['maxlen'] + 1):
            for triples in itertools.product(pool, repeat=L):
                idx += 1
                if idx % p['mod'] != p['rem']:
                    continue
                for gtop in (None, 'a', 'zz'):
                    g = Graph(list(triples), top=gtop)
                    for top in (None, 'b', 'zz'):
                        ctx.current = _graphs.gpayload(g, 'default', top=top, arbitrary=True)
                        check_list(ctx, g, top, ctx.current)
                        ctx.enumerated(nontrivial=L > 0)
        ctx.exhaustive[f"triple-lists len<={p['maxlen']} over 60 triples x 3 graph tops x 3 requested tops (shard slice)"] = idx + 1
    elif kind == 'list':
        rng = ctx.rng('list', p['i'])
        sym = ['a', 'b', 'c', 'd', 'x', None, 0, '"s"']
        roles = [':instance', ':R', ':R-of', ':S', ':', 'noColon', ':TOP']
        n = rng.randrange(0, 9)
        triples = [(rng.choice(sym[:5]), rng.choice(roles), rng.choice(sym)) for _ in range(n)]
        ep = {}
        srcs = sorted({s for s, _, _ in triples})
        from penman.surface import Alignment, RoleAlignment
        for t in triples:
            if rng.random() < 0.3:
                ep[t] = [rng.choice([POP, Push(rng.choice(srcs + ['zz'])), Pop(), Alignment((1, 2), prefix='e.'),
                                     RoleAlignment((3,))])
                         for _ in range(rng.randrange(1, 3))]
        g = Graph(triples, top=rng.choice([None, None, 'a', 'b', 'zz']), epidata=ep)
        # requested tops include constants that occur as attribute values
        top = rng.choice([None, None, 'a', 'c', 'zz', 'x', '"s"', 0])
        ctx.current = _graphs.gpayload(g, 'default', top=top, arbitrary=True)
        check_list(ctx, g, top, ctx.current, n=len(triples) if p['i'] % 5 == 0 else None)
        ctx.case(ctx.current, n > 0)
    elif kind == 'corrupt':
        rng = ctx.rng('corrupt', p['i'])
        mname = MODELS_A[p['i'] % len(MODELS_A)]
        _, model, rm, _ = M.get(mname)
        mode = p['i'] % 4
        if mode == 3:
            node = T.rand_tree(rng, rm)
            ok, g0 = ctx.call(layout.interpret, Tree(node), model, clause='pre-interpret')
            if not ok:
                return
            triples = list(g0.triples)
            vs = sorted(g0.variables())
            from pmon.checks import _trees
            if not _trees.wellformed(node, rm):
                return
        else:
            vs, triples = G.rand_graph(rng, rm, n=rng.choice([1, 2, 3, 3, 4, 5, 6, 8, 10]))
            g0 = Graph(triples)
            if mode:
                ok, s = ctx.call(penman.encode, g0, model=model, top=rng.choice(vs), clause='pre-encode')
                if not ok:
                    return
                ok, g0 = ctx.call(penman.decode, s, model=model, clause='pre-decode')
                if not ok:
                    return
        want = G.content(g0.triples, set(vs), rm)
        ops = G.corrupt(rng, g0, vs)
        for o in ops:
            ctx.count('op:' + o)
        if ops:
            ctx.count('a:corrupted')
        tops = [None] + ([rng.choice(vs)] if rng.random() < 0.6 else [])
        for top in tops:
            ctx.current = _graphs.gpayload(g0, mname, top=top, ops=ops)
            s = _graphs.roundtrip(ctx, g0, top, mname, want=want, variables=set(vs), budget=True,
                                  clause='corrupted-markers', payload=ctx.current)
            ctx.case(ctx.current, bool(ops) and len(vs) >= 2)
            if ctx.want_sample() and s and len(ops) >= 3 and len(vs) >= 3:
                ctx.sample({'triples': g0.triples, 'epidata': G.to_json(g0)['epi'], 'top': top,
                            'ops': ops, 'model': mname, 'encoded': s[:300]})
    elif kind == 'graph':
        g = G.from_json(p['graph'])
        if p.get('arbitrary'):
            check_list(ctx, g, p.get('top'), ctx.current, n=len(g.triples))
        else:
            _graphs.roundtrip(ctx, g, p.get('top'), p['model'], budget=True,
                              clause='corrupted-markers', payload=ctx.current)
        ctx.case(p, True)
