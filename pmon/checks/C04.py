"""C04 - decoding yields exactly the documented reading of the notation.

Events that refute: a parseable tree (well- or ill-formed) and model with
(top, triples) or alignment maps differing from the reference interpretation
(pmon/ref/interp.py, written from the docs)."""
import penman
from penman.tree import Tree

from pmon.gen import trees as T, models as M, strings as S
from pmon.checks import _trees
from pmon.probe import interpret_disagreement as probe_disagreement

ID = 'C04'
PYTEST_LAW = 'C04'     # also run /repo's own tests with this property's law attached
RULE = ('parseable trees: the bounded-exhaustive small trees of C02 *without* the well-formedness '
        'filter (so duplicate triples and inverted self-loops are included), seeded random '
        'well-formed trees, and mangled ones (duplicate definitions, duplicate branches, -of-of, '
        ':instance written as a role, nested empty nodes, missing targets) re-parsed from their '
        'text, under default, AMR, no-op, mini-AMR and random role tables; plus accepted strings of '
        'the C07 token corpus; mangled trees also write :instance-of / :TOP-of; a sixth of the texts is '
        'also decoded through decode, codec.decode, loads, iterdecode and codec.iterdecode(lines) and '
        'compared with interpret. Under AMR the reference inventory is the documented one and a third of '
        'the roles come from it. Non-trivial: the tree has an inverted role, a re-entrancy, an '
        'alignment, a missing concept or is ill-formed.')
ANCHORS = ['penman.layout:interpret', 'penman.layout:_interpret_node', 'penman.layout:_process_role',
           'penman.layout:_process_atomic', 'penman.surface:AlignmentMarker.from_string',
           'penman.surface:_get_alignments', 'penman.model:Model.is_role_inverted',
           'penman.model:Model.deinvert', 'penman.models.noop:NoOpModel.deinvert']
PROBES = {'C04': 0}
MIN_EVAL = {'quick': 3000, 'thorough': 100000}
REQUIRED_COUNTERS = ['illformed', 'wellformed', 'model:noop', 'model_churn_rounds']
ASSUMPTIONS = ['compensating errors are possible only if reference and code misread the docs the same way']
MODELS_RANDOM = ['default', 'amr', 'noop', 'mini', 'inv', 'both', 'prefix'] + [f'rand{i}' for i in range(12)]


def cases(ctx):
    q = ctx.tier == 'quick'
    if q:
        yield 'exh', {'nmax': 2, 'kmax': 2, 'mod': ctx.nshards, 'rem': ctx.shard}
    else:
        yield 'exh', {'nmax': 3, 'kmax': 2, 'mod': ctx.nshards, 'rem': ctx.shard}
    b = 0
    for L in range(1, 4 if q else 5):
        total = len(S.TOKENS22) ** L
        for start in range(0, total, 2000):
            if ctx.mine(b):
                yield 'toks', {'len': L, 'start': start, 'count': 2000}
            b += 1
    n = 3000 if q else 50000
    ctx.new_phase()
    for i in range(n):
        if not ctx.time_left():
            break
        yield 'rand', {'i': i}
        if i % 10 == 0:
            yield 'churn', {'i': i}


def oracle(ctx, kind, p):
    if kind == 'exh':
        idx = -1
        for node in _trees.small_trees(p['nmax'], p['kmax']):
            idx += 1
            if idx % p['mod'] != p['rem']:
                continue
            for mname in ('default', 'noop'):
                ctx.current = _trees.payload(node, mname)
                _trees.c04(ctx, node, mname)
                wf = _trees.wellformed(node, M.get(mname)[2])
                ctx.enumerated(nontrivial=True)
                ctx.count('wellformed' if wf else 'illformed')
                ctx.count('model:' + mname)
        ctx.exhaustive[f"small-trees n<={p['nmax']} extras<={p['kmax']} (shard slice)"] = idx + 1
    elif kind == 'toks':
        for s in S.batch(S.TOKENS22, p['len'], p['start'], p['count'], ' '):
            try:
                t = penman.parse(s)
            except penman.DecodeError:
                continue
            for mname in ('default', 'amr', 'noop'):
                ctx.current = ['text', {'s': s, 'model': mname}]
                _trees.c04(ctx, t.node, mname, t.metadata)
                ctx.enumerated(nontrivial=len(t.node[1]) > 0)
                ctx.count('wellformed' if _trees.wellformed(t.node, M.get(mname)[2]) else 'illformed')
                ctx.count('model:' + mname)
    elif kind == 'churn':
        # one text read alternately under short-lived models of two tables that disagree on a role
        from pmon.checks import _graphs
        rng = ctx.rng('churn', p['i'])
        d, mk1, mk2 = _graphs.churn_models(rng)
        s = f'(a / alpha {d} (b / beta :quant 0 {d} a) :ARG0 (c {d} b~e.1) {d}-of c)'
        node = penman.parse(s).node
        for k in range(6):
            model, rm = (mk1 if k % 2 == 0 else mk2)()
            ctx.current = ['text', {'s': s, 'model': rm.name}]
            _trees.c04(ctx, node, rm.name, model_rm=(model, rm))
            ctx.case((p['i'], k, d), True)
            del model
            if k % 2:
                ok, g = ctx.call(penman.decode, s, clause='decode(no model)')
                if ok:
                    dd = probe_disagreement(penman.parse(s), None, g)
                    if dd and dd != 'skip':
                        ctx.fail('interpret!=reference(no model argument)', mech=dd.split()[0],
                                 detail={'text': s, 'diff': dd[:400]})
        ctx.count('model_churn_rounds')
    elif kind == 'text':
        t = penman.parse(p['s'])
        _trees.c04(ctx, t.node, p['model'], t.metadata)
        ctx.case(p, True)
    elif kind == 'tree':
        _trees.c04(ctx, T.from_json(p['tree']), p['model'], p.get('meta'))
        ctx.case(p['tree'], True)
    elif kind == 'rand':
        rng = ctx.rng('rand', p['i'])
        mname = MODELS_RANDOM[p['i'] % len(MODELS_RANDOM)]
        rm = M.get(mname)[2]
        node = T.rand_tree(rng, rm, deep=(p['i'] % 9 == 0), allow_empty_target=True)
        ill = p['i'] % 2 == 1
        if ill:
            node = T.mangle(rng, node, rm)
            s = penman.format(Tree(node), indent=None)
            try:
                node = penman.parse(s).node     # C04 quantifies over parseable trees
            except penman.DecodeError:
                ctx.count('mangled_unparseable')
                return
        ctx.current = _trees.payload(node, mname)
        _trees.c04(ctx, node, mname)
        f = T.features(node, rm)
        wf = _trees.wellformed(node, rm)
        ctx.case(ctx.current, bool(f) or not wf)
        ctx.count('wellformed' if wf else 'illformed')
        ctx.count('model:' + ('rand' if mname.startswith('rand') else mname))
        if ctx.want_sample() and (not wf) and len(f) >= 2:
            ctx.sample({'text': _trees._fmt(node), 'model': mname, 'wellformed': wf})
