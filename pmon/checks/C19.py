"""C19 - triple-conjunction notation round-trips.

Events that refute: a non-empty triple list (sources: symbols; targets:
symbols or quoted strings with any content) whose
parse_triples(format_triples(L, indent)) differs from L with colon-ful roles,
in either line style; documented spacing variants around the comma and the
conjunction sign that do not parse to the same triples."""
import itertools

import penman
from penman import layout
from penman.tree import Tree

from pmon.gen import trees as T, models as M

ID = 'C19'
RULE = ('triple lists from graphs decoded from WF-T trees (null targets removed, anonymous role '
        'removed) and seeded random lists (targets: symbols, numbers, quoted strings with blanks, '
        'commas, parentheses, ^, escapes, random strings over ( ) , ^ blank quote backslash; symbols containing commas such as 1,000; roles with and without colon) x indent in {True, False}, '
        'through penman.format_triples/parse_triples and the codec methods; all 12 spacing variants '
        '{"a,b" "a, b" "a ,b" "a , b"} x {"x^y" "x ^y" "x ^ y"} of each 2-triple conjunction. '
        'Non-trivial: the list has >=2 triples and a quoted-string target.')
ANCHORS = ['penman._parse:_parse_triples', 'penman._parse:_parse_triple', 'penman._format:format_triples']
MIN_EVAL = {'quick': 2000, 'thorough': 40000}
REQUIRED_COUNTERS = ['string_targets', 'variants', 'long_lists']
SRCS = ['a', 'b', 'x1', '_', 'n-0', '\u03b5', 'b.c', 'None']
ROLES = [':instance', ':ARG0', ':ARG1-of', ':mod', ':op10', 'polarity', ':x-y', ':\u00e9t\u00e9', ':a.b',
         ':^sup', '^r', ':a^b',
         # roles spelled like the sources and targets of the same list
         ':a', ':b', 'x1', ':None', ':foo-01']
TGTS = ['b', 'x1', '7', '-1.5', '-', '+', 'foo-01', '"x"', '"a b"', '"(p)"', '"a, b"', '"^"', '"q ^ r"',
        '"\\"q\\""', '"a,b)"', '"#"', '""', '"\\\\"', '"\u00e9\u3000"', '0', '1e3', 'c.d', "it's", '"~1"',
        '1,000', 'c,d', '1,000,000', '"{{cite web}}"', '"{"', '"a}b{c"', 'x{0}', '{}', '"f(x)^2 + g(y) ^ 3"', '"a) ^ b"', '")^"', '"x) ^\\" y"', '"(a , b) ^ (c ,d)"',
        # symbols spelled like another language's constants, a blank before '#' inside a string
        'None', 'null', 'True', 'nan', '"None"', '"Mambo #5"', '"a\t# b"', '"# c"', 'C#', 'a#1']
QCHARS = ['(', ')', ',', '^', ' ', 'a', '\\"', '\\\\', '~', ':', '#', '\t', '.']


def rand_string_target(rng):
    return '"' + ''.join(rng.choice(QCHARS) for _ in range(rng.randrange(0, 9))) + '"'


def cases(ctx):
    q = ctx.tier == 'quick'
    n = 2500 if q else 40000
    ctx.new_phase()
    for i in range(n):
        if not ctx.time_left():
            break
        yield 'rand', {'i': i}
        if i % 25 == 0:
            yield 'long', {'i': i}


def colon(r):
    return r if r.startswith(':') else ':' + r


def check_list(ctx, L, det):
    want = [(s, colon(r), t) for s, r, t in L]
    c = penman.PENMANCodec()
    for ind in (True, False):
        for fmt, prs, how in ((penman.format_triples, penman.parse_triples, 'penman'),
                              (c.format_triples, c.parse_triples, 'codec')):
            ok, txt = ctx.call(fmt, L, indent=ind, clause='format_triples')
            if not ok:
                continue
            from penman.graph import Triple
            ok_g, txt_g = ctx.call(fmt, (Triple(*t) for t in L), indent=ind, clause='format_triples(generator)')
            if ok_g and txt_g != txt:
                ctx.fail('format_triples:generator-of-Triples-differs', detail=dict(det, text=txt[:200], other=txt_g[:200]))
            ok, back = ctx.call(prs, txt, clause='parse_triples')
            if ok and back != want:
                ctx.fail('parse_triples(format_triples(L))!=L', mech=f'indent={ind}',
                         detail=dict(det, text=txt[:400], got=back[:8], want=want[:8], api=how))
            if ok and ind and '\n' not in txt and len(L) > 1:
                ctx.fail('format_triples:line-style', detail=dict(det, text=txt[:200]))


def check_mixed_junctions(ctx, L, rng, det):
    """one conjunction whose junctions are written in different styles"""
    want = [(s, colon(r), t) for s, r, t in L]
    parts = [f'{r.lstrip(":")}({s}, {t})' for s, r, t in L]
    txt = parts[0]
    for pt in parts[1:]:
        txt += rng.choice(['^', ' ^', ' ^ ', ' ^\n', '^ ']) + pt
    ctx.count('variants')
    ok, back = ctx.call(penman.parse_triples, txt, clause='parse_triples(mixed junctions)')
    if ok and back != want:
        ctx.fail('mixed-junction-styles', detail=dict(det, text=txt[:300], got=back[:6], want=want[:6]))


def check_variants(ctx, t1, t2, det):
    """the twelve documented spacing variants of a two-triple conjunction"""
    want = [(t1[0], colon(t1[1]), t1[2]), (t2[0], colon(t2[1]), t2[2])]
    texts = []
    for comma in (',', ', ', ' ,', ' , '):
        for caret in ('^', ' ^', ' ^ '):
            a = f'{t1[1].lstrip(":")}({t1[0]}{comma}{t1[2]})'
            b = f'{t2[1].lstrip(":")}({t2[0]}{comma}{t2[2]})'
            texts.append(a + caret + b)
    for txt in texts:
        ctx.count('variants')
        ok, back = ctx.call(penman.parse_triples, txt, clause='parse_triples(variant)')
        if ok and back != want:
            ctx.fail('spacing-variant', mech=repr(txt[len(t1[1]) + len(t1[0]):][:3]),
                     detail=dict(det, text=txt, got=back, want=want))


def render(L, comma, caret):
    return caret.join(f'{r.lstrip(":")}({s}{comma}{t})' for s, r, t in L)


def oracle(ctx, kind, p):
    if kind == 'long':
        # long conjunctions (17-130 triples) in every documented spacing style
        rng = ctx.rng('long', p['i'])
        n = rng.choice([17, 23, 33, 40, 56, 64, 65, 70, 100, 129])
        L = [(rng.choice(SRCS), rng.choice(ROLES), rng.choice(['b', '7', 'x-01', '"s t"', '"a, b"', 'foo']))
             for _ in range(n)]
        want = [(s, colon(r), t) for s, r, t in L]
        ctx.current = ['list', {'L': [list(t) for t in L]}]
        for comma in (',', ', ', ' ,', ' , '):
            for caret in ('^', ' ^', ' ^ ', ' ^\n'):
                txt = render(L, comma, caret)
                ok, back = ctx.call(penman.parse_triples, txt, clause='parse_triples(long)')
                ctx.count('variants')
                if ok and back != want:
                    ctx.fail('long-conjunction', mech=f'{comma!r}{caret!r}',
                             detail={'triples': n, 'comma': comma, 'caret': caret, 'parsed': len(back),
                                     'text': txt[:200]})
        check_list(ctx, L, {'triples': n})
        ctx.count('long_lists')
        ctx.case(L, True)
        return
    if kind == 'list':
        L = [tuple(t) for t in p['L']]
        check_list(ctx, L, {})
        ctx.case(p, True)
        return
    rng = ctx.rng('rand', p['i'])
    if p['i'] % 2 == 0:
        rm = M.get('default')[2]
        node = T.rand_tree(rng, rm, p_aln=0.0)
        ok, g = ctx.call(layout.interpret, Tree(node), clause='interpret')
        if not ok:
            return
        L = [(s, r, t) for s, r, t in g.triples if t is not None and r != ':'
             and not any(ch in ' \t\r\n\x0b\x0c' for ch in s + t if not t.startswith('"'))
             and ',' not in s and not s.startswith('^') and not t.startswith(',')]
        L = [(s, r, t) for s, r, t in L if t.startswith('"') or not any(c in t for c in '(),^')]
    else:
        L = [(rng.choice(SRCS), rng.choice(ROLES),
              rand_string_target(rng) if rng.random() < 0.3 else rng.choice(TGTS))
             for _ in range(rng.randrange(1, 7))]
    if not L:
        return
    ctx.current = ['list', {'L': [list(t) for t in L]}]
    det = {'triples': L[:8]}
    check_list(ctx, L, det)
    strings = sum(1 for t in L if t[2].startswith('"'))
    if strings:
        ctx.count('string_targets')
    if len(L) >= 2:
        t1, t2 = rng.sample(L, 2)
        check_variants(ctx, t1, t2, det)
    if len(L) >= 3:
        check_mixed_junctions(ctx, L, rng, det)
    ctx.case(L, len(L) >= 2 and strings > 0)
    if ctx.want_sample() and strings and len(L) >= 3:
        ctx.sample({'triples': L[:6], 'text': penman.format_triples(L[:6], indent=False)})
