"""Shared graph-level workloads and oracles (C03, C05, C06, C12 ...)."""
import itertools

import penman
from penman import layout
from penman.graph import Graph
from penman.tree import Tree
from penman.exceptions import LayoutError

from pmon.gen import graphs as G, trees as T, models as M
from pmon.ref import interp


def gpayload(g, mname, **kw):
    d = {'graph': G.to_json(g), 'model': mname}
    d.update(kw)
    return ['graph', d]


def tree_stats(node):
    """(defined variables list, number of branches)"""
    vs, nb = [], 0
    stack = [node]
    while stack:
        v, br = stack.pop()
        vs.append(v)
        for r, t in br:
            nb += 1
            if isinstance(t, tuple):
                stack.append(t)
    return vs, nb


DISPUTED = [':consist-of', ':x-of', ':u-of', ':prep-on-behalf-of', ':part-of']


def churn_models(rng):
    """two role tables that disagree on whether a role ending in -of is inverted, as fresh
    (short-lived) penman Model objects with their reference models"""
    from penman.model import Model
    from pmon.ref.model import RefModel
    d = rng.choice(DISPUTED)
    roles = {d: {}, ':ARG[0-9]': {}, ':quant': {}, ':mod': {}}
    return d, (lambda: (Model(roles=roles), RefModel(roles=list(roles), name='defines' + d))), \
        (lambda: (Model(), RefModel(name='default')))


def roundtrip(ctx, g, top, mname, want=None, variables=None, clause='encode-decode', budget=False,
              indent=None, payload=None, model_rm=None):
    """encode(g, top) must succeed; decoding must give the requested top, the
    same variables and the same content; the text defines every variable at
    most once and has one branch per non-null-concept triple (conservation).
    Returns the text or None."""
    if model_rm is not None:
        model, rm = model_rm
    else:
        _, model, rm, _ = M.get(mname)
    if variables is None:
        variables = g.variables()
    if want is None:
        want = G.content(g.triples, variables, rm)
    eff_top = top if top is not None else g.top
    n = len(g.triples) if budget else None
    ok, tree = ctx.call(layout.configure, g, top=top, model=model, clause=clause + ':configure', n=n)
    if not ok:
        if isinstance(tree, Exception) and not isinstance(tree, LayoutError):
            return None
        if isinstance(tree, LayoutError):
            ctx.fail(clause + ':LayoutError-on-connected-graph', mech=str(tree)[:40],
                     detail={'triples': g.triples, 'top': top, 'model': mname, 'error': str(tree)},
                     payload=payload)
        return None
    # conservation on the tree itself
    vs, nb = tree_stats(tree.node)
    if len(set(vs)) != len(vs):
        dup = sorted({v for v in vs if vs.count(v) > 1}, key=repr)
        ctx.fail(clause + ':variable-defined-twice', mech='redefinition',
                 detail={'triples': g.triples, 'top': top, 'dup': dup, 'tree': repr(tree.node)[:600]},
                 payload=payload)
    expect = sum(1 for s, r, t in g.triples if not (r == rm.concept_role and (t is None or t == '')))
    if nb != expect:
        ctx.fail(clause + ':branch-count', mech='more' if nb > expect else 'fewer',
                 detail={'triples': g.triples, 'top': top, 'branches': nb, 'expected': expect,
                         'tree': repr(tree.node)[:600]}, payload=payload)
    ok, s = ctx.call(penman.format, tree, indent=indent, clause=clause + ':format')
    if not ok:
        return None
    if ctx.evaluations % 16 == 0:
        # other ways to say the same thing: the codec, the module-level function, positional
        # arguments, the existing top given explicitly
        codec = penman.PENMANCodec(model=model)
        ok1, s1 = ctx.call(codec.encode, g, eff_top, indent, clause=clause + ':codec.encode(positional)')
        ok2, s2 = ctx.call(penman.encode, g, top=top, model=model, indent=indent, clause=clause + ':penman.encode')
        if ok1 and ok2 and not (s1 == s2 == s):
            ctx.fail(clause + ':argument-forms-disagree', detail={'triples': g.triples, 'top': top,
                                                                   'a': s[:300], 'b': s1[:300], 'c': s2[:300]},
                     payload=payload)
    ok, d = ctx.call(penman.decode, s, model=model, clause=clause + ':decode')
    if not ok:
        return None
    if d.top != eff_top:
        ctx.fail(clause + ':top', detail={'text': s[:400], 'got': d.top, 'want': eff_top}, payload=payload)
    if d.variables() != set(variables):
        ctx.fail(clause + ':variables', mech='vars',
                 detail={'text': s[:400], 'got': sorted(d.variables(), key=repr),
                         'want': sorted(variables, key=repr)}, payload=payload)
    got = G.content(d.triples, d.variables(), rm)
    if got != want:
        extra = [x for x in got if x not in want]
        miss = [x for x in want if x not in got]
        mech = ('extra-null-instance' if any(x[1] == ':instance' and x[2] is None for x in extra)
                else 'missing' if miss and not extra else 'extra' if extra and not miss else 'changed')
        ctx.fail(clause + ':content', mech=mech,
                 detail={'triples': g.triples, 'top': top, 'model': mname, 'text': s[:500],
                         'extra': extra[:5], 'missing': miss[:5]}, payload=payload)
    return s


# ---------------------------------------------------------------- exhaustive small graphs

VS = ['a', 'b', 'c']
ROLES = [':R', ':R-of', ':S']


def _weakly_connected(vs, edges):
    adj = {v: set() for v in vs}
    for s, r, t in edges:
        adj[s].add(t)
        adj[t].add(s)
    seen = {vs[0]}
    ag = [vs[0]]
    while ag:
        c = ag.pop()
        for n in adj[c]:
            if n not in seen:
                seen.add(n)
                ag.append(n)
    return len(seen) == len(vs)


def _canon_edge(e):
    s, r, t = e
    return (t, r[:-3], s) if r.endswith('-of') else e


def small_graphs(nmax=3, kmax=3):
    """WF-G graphs with <=nmax variables, <=kmax edges over {:R,:R-of,:S}, and
    0..2 attributes; concepts: 'A', None and one spelled like variable a."""
    for n in range(1, nmax + 1):
        vs = VS[:n]
        concepts = {'a': 'A', 'b': None, 'c': 'a'}
        inst = [(v, ':instance', concepts[v]) for v in vs]
        all_edges = [(s, r, t) for s in vs for t in vs for r in ROLES
                     if not (s == t and r.endswith('-of'))]
        for k in range(0, kmax + 1):
            for edges in itertools.combinations(all_edges, k):
                if len({_canon_edge(e) for e in edges}) != k:
                    continue
                if not _weakly_connected(vs, edges):
                    continue
                for attrs in ([], [(vs[-1], ':P', 0)], [(vs[0], ':R-of', 'x')],
                              [(vs[0], ':P', '"s"'), (vs[-1], ':P', None)]):
                    yield vs, inst + list(edges) + attrs


def marker_states(ctx, vs, triples, mname='default'):
    """[('none', Graph)] + [('dec-<top>', decoded graph)] for every top"""
    _, model, rm, _ = M.get(mname)
    states = [('none', Graph(triples))]
    for top in vs:
        ok, s = ctx.call(penman.encode, Graph(triples), top=top, model=model,
                         allowed=(), clause='pre-encode')
        if not ok:
            continue
        ok, g = ctx.call(penman.decode, s, model=model, clause='pre-decode')
        if ok:
            states.append(('dec-' + top, g))
    return states
