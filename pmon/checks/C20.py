"""C20 - the penman command equals the library pipeline and emits a normal form.

Events that refute: (1) stdout differing from the reference pipeline's output
for some input stream and option set (graph texts byte for byte, in order;
separator newline or blank line; exit status); (2) formatting options
changing content (token sequence); (3) output fed back with the same options
not reproduced byte for byte (option sets without --reconfigure,
--indicate-branches, random keys; --check and --triples excluded);
(4) without options, output not decoding to the same graphs as a well-formed
input."""
import io
import json
import os
import random
import subprocess
import sys
import tempfile

import penman
from penman import layout
from penman.tree import Tree

from pmon import canon, core as _core
from pmon.gen import trees as T, models as M, graphs as G
from pmon.ref import cli as RC, lexer as R, interp
from pmon.checks import _trees
from pmon.checks.C16 import run_main
from pmon.checks.C10 import generated_like

ID = 'C20'
RULE = ('streams of 0-4 WF-T graphs with metadata x random subsets of the eight normalisation '
        'switches (every rearrange/reconfigure key name, two relabel formats) x indent {absent, no, '
        '-1, 0, 3} x compact x triples x models {default, --amr, --noop, --model file.json} x input '
        'via stdin, one file or several files; run in-process through penman.__main__.main() with '
        'patched argv/stdin/stdout (probes attached) and, sampled, as real `python -m penman` '
        'children under two hash seeds. With --canonicalize-roles half of the streams are over-inverted; '
        'hand-written comment lines; without content-changing options (or with --rearrange only) input and '
        'output are read with the reference parser and interpretation and must give the same graphs and '
        'metadata; --triples alone must print the triples of the documented reading. Non-trivial: >=1 normalisation switch and >=1 graph.')
ANCHORS = ['penman.__main__:main', 'penman.__main__:process', 'penman.__main__:_process_in',
           'penman.__main__:_process_out', 'penman.__main__:_make_sort_key', 'penman.__main__:_indent',
           'penman.__main__:_get_model']
PROBES = {'C17': 10, 'C04': 5, 'C03': 5, 'C08': 20, 'C07': 20}
MIN_EVAL = {'quick': 400, 'thorough': 10000}
REQUIRED_COUNTERS = ['cli_runs', 'idempotence_runs', 'subprocess_runs', 'multi_file', 'model:amr',
                     'model:noop', 'model:file', 'opt:reconfigure', 'opt:rearrange', 'opt:triples',
                     'no_option_runs', 'messy_streams', 'crlf_files', 'repeated_file']
AMR_ROLES = [':ARG0', ':ARG1', ':ARG2', ':mod', ':domain', ':op1', ':op2', ':op10', ':polarity', ':quant',
             ':name', ':consist-of', ':time', ':location', ':poss', ':beneficiary', ':role', ':foo',
             ':accompanier', ':age']


def cases(ctx):
    q = ctx.tier == 'quick'
    if ctx.shard == 0:
        # designated probe for the open known finding F22 (printed on every run)
        yield 'probe', {'argv': ['--amr', '--canonicalize-roles', '--reify-edges'],
                        'options': ['canonicalize_roles', 'reify_edges'],
                        'input': '(a / 7 :ARG1 (f / 7 :name a) :mod-of f :foo f)\n'}
    n = 450 if q else 9000
    ctx.new_phase()
    for i in range(n):
        if not ctx.time_left():
            break
        yield 'rand', {'i': i}


def option_set(rng):
    o = {
        'canonicalize_roles': rng.random() < .3, 'reify_edges': rng.random() < .3,
        'dereify_edges': rng.random() < .3, 'reify_attributes': rng.random() < .3,
        'indicate_branches': rng.random() < .15, 'check': rng.random() < .2,
        'triples': rng.random() < .12,
        'reconfigure': rng.choice([None, None, None, None, ['original'], ['canonical'], ['random'],
                                   ['canonical', 'original'], ['original', 'canonical']]),
        'rearrange': rng.choice([None, None, None, ['canonical'], ['alphanumeric'], ['attributes-first'],
                                 ['attributes-first', 'alphanumeric'], ['inverted-last', 'alphanumeric'],
                                 ['alphanumeric', 'inverted-last'], ['canonical', 'alphanumeric'],
                                 ['alphanumeric', 'canonical'], ['inverted-last', 'canonical', 'attributes-first'],
                                 ['random'], ['canonical', 'attributes-first']]),
        'make_variables': rng.choice([None, None, '{prefix}{j}', 'v{i}']),
        'compact': rng.random() < .3,
    }
    ind = rng.choice([None, 'no', '-1', '0', '3'])
    o['indent_arg'] = ind
    o['indent'] = -1 if ind is None else (None if ind == 'no' else int(ind))
    return o


def argv_of(o, mflag):
    argv = list(mflag)
    for flag, key in [('--canonicalize-roles', 'canonicalize_roles'), ('--reify-edges', 'reify_edges'),
                      ('--dereify-edges', 'dereify_edges'), ('--reify-attributes', 'reify_attributes'),
                      ('--indicate-branches', 'indicate_branches'), ('--check', 'check'),
                      ('--triples', 'triples'), ('--compact', 'compact')]:
        if o[key]:
            argv.append(flag)
    if o['reconfigure']:
        argv.append('--reconfigure=' + ','.join(o['reconfigure']))
    if o['rearrange']:
        argv.append('--rearrange=' + ','.join(o['rearrange']))
    if o['make_variables']:
        argv.append('--make-variables=' + o['make_variables'])
    if o['indent_arg'] is not None:
        argv.append('--indent=' + o['indent_arg'])
    return argv


def uses_random(o):
    return ('random' in (o['reconfigure'] or [])) or ('random' in (o['rearrange'] or []))


def has_inverted_attribute(node, rm):
    vs = interp.tree_vars(node)
    for nd in T.nodes(node):
        for r, t in nd[1]:
            if r != '/' and not isinstance(t, tuple):
                a, _ = interp.split_atom(t)
                if a not in vs and rm.inverted(r.partition('~')[0]):
                    return True
    return False


def oracle(ctx, kind, p):
    if kind == 'probe':
        rm = M.get('amr')[2]
        ok, res = ctx.call(run_main, p['argv'], p['input'], clause='cli:main')
        if not ok:
            return
        out = res[1]
        ok, res2 = ctx.call(run_main, p['argv'], out, clause='cli:main(second pass)')
        ctx.count('idempotence_probe')
        ctx.case(p, True)
        if ok and res2[1] != out:
            noncanon = sorted({t[1].partition('~')[0] for t in R.lex(out)
                               if t[0] == 'ROLE' and t[1].partition('~')[0] in rm.normalizations})
            ctx.fail('not-idempotent', mech='normalisable-role-in-output probe',
                     detail={'argv': p['argv'], 'options': p['options'], 'first': out, 'second': res2[1],
                             'noncanonical_roles_in_first_output': noncanon})
        return
    if kind != 'rand':
        return
    rng = ctx.rng('rand', p['i'])
    which = p['i'] % 5
    tmpdir = tempfile.mkdtemp(prefix='pmon-c20-')
    try:
        if which == 0:
            mname, mflag = 'default', []
        elif which in (1, 2):
            mname, mflag = 'amr', ['--amr']
        elif which == 3:
            mname, mflag = 'noop', ['--noop']
        else:
            mname = 'miniroot' if p['i'] % 2 else 'mini'
            mp = os.path.join(tmpdir, 'model.json')
            with open(mp, 'w') as fh:
                json.dump(M.get(mname)[3], fh)
            mflag = ['--model=' + mp]
        ctx.count('model:' + ('file' if which == 4 else mname))
        _, model, rm, _ = M.get(mname)
        o = option_set(rng)
        if p['i'] % 9 == 0:
            for k in ('canonicalize_roles', 'reify_edges', 'dereify_edges', 'reify_attributes',
                      'indicate_branches', 'check', 'triples'):
                o[k] = False
            o['reconfigure'] = o['rearrange'] = o['make_variables'] = None
        elif p['i'] % 9 == 7:
            # --canonicalize-roles and nothing else that changes content (its streams are over-inverted)
            for k in ('reify_edges', 'dereify_edges', 'reify_attributes', 'indicate_branches', 'check', 'triples'):
                o[k] = False
            o['reconfigure'] = o['rearrange'] = o['make_variables'] = None
            o['canonicalize_roles'] = True
        elif p['i'] % 9 == 4:
            # --triples and nothing else that changes content
            for k in ('canonicalize_roles', 'reify_edges', 'dereify_edges', 'reify_attributes',
                      'indicate_branches', 'check'):
                o[k] = False
            o['reconfigure'] = o['rearrange'] = o['make_variables'] = None
            o['triples'] = True
        fmt = o['make_variables']
        like = generated_like(fmt, set('abcdefghijklmnopqrstuvwxyz_')) if fmt else None
        # ---- input stream
        nfiles = rng.choice([0, 0, 1, 1, 2, 3])     # 0 = stdin
        chunks = []
        nodes = []
        # a quarter of the streams use legal but unconventional spellings (over-inverted roles,
        # ':instance' written as a role, duplicate branches, zero-padded alignment indices,
        # missing targets): only the pipeline-equality and format-invariance clauses apply to them
        messy = p['i'] % 4 == 3
        if messy:
            ctx.count('messy_streams')
        nodes_by_file = []
        for fi in range(max(1, nfiles)):
            trees = []
            nodes_by_file.append([])
            for j in range(rng.randrange(0, 4)):
                node = T.rand_tree(rng, rm, roles=AMR_ROLES if mname in ('amr', 'mini', 'miniroot') else None,
                                   no_constants_like=like)
                if not _trees.wellformed(node, rm):
                    continue
                if not messy and o['canonicalize_roles'] and (rng.random() < 0.5 or p['i'] % 9 == 7):
                    # over-inverted spellings of the same roles (pairs of '-of' added): with
                    # --canonicalize-roles the stream means the same and the output is a fixed point
                    hot = set(rm.normalizations) | {k[:-3] for k in rm.normalizations if k.endswith('-of')}

                    def over(nd):
                        # (roles that the normalisation table mentions, in either direction, nearly always
                        #  get a pair: ':mod-of' -> ':mod-of-of-of' must still end up as ':domain')
                        return (nd[0], [((r.partition('~')[0]
                                          + '-of-of' * rng.choice([1, 1, 1, 2, 0] if r.partition('~')[0] in hot
                                                                  else [0, 0, 1, 1, 2])
                                          + r.partition('~')[1] + r.partition('~')[2]) if r != '/' else r,
                                         over(t) if isinstance(t, tuple) else t) for r, t in nd[1]])
                    node = over(node)
                    ctx.count('over_inverted_streams')
                if messy:
                    node = T.mangle(rng, node, rm, special_inverse=False)   # (':instance-of v' makes graphs that cannot be laid out)
                    if any(n[0] is None for n in T.nodes(node)):
                        continue    # nested empty nodes have no variable to relabel (outside C10/C20)
                meta = {'id': f'{fi}.{j}'} if rng.random() < 0.5 else {}
                if rng.random() < 0.2:
                    meta['snt'] = 'a  b ; (c)'
                trees.append(Tree(node, metadata=meta))
                nodes_by_file[-1].append(node)
            texts_ = [penman.format(t, indent=rng.choice([None, -1, 2])) for t in trees]
            # hand-written comment lines (not produced by the library's formatter): an empty key with a
            # value, two keys on one line
            texts_ = [(rng.choice(['# :: remark 3\n', '# ::a 1 ::b 2\n', '# ::k\n']
                                  + ([] if o['check'] else ['# ::error-1 written by hand\n', '# ::error-12 (a :b c) kept\n']))
                       if rng.random() < 0.2 else '') + x
                      for x in texts_]
            if messy:
                import re as _re
                texts_ = [_re.sub(r'~(e\.)?(\d)\b', lambda m: '~' + (m.group(1) or '') + '0' + m.group(2), x)
                          for x in texts_]
                ok_ = []
                for x in texts_:
                    try:
                        penman.parse(x)
                        ok_.append(x)
                    except penman.DecodeError:
                        pass
                texts_ = ok_
            chunks.append('\n\n'.join(texts_) + ('\n' if texts_ else ''))
        argv = argv_of(o, mflag)
        files = []
        if nfiles:
            crlf = p['i'] % 6 == 0 and not messy
            for fi, c in enumerate(chunks):
                path = os.path.join(tmpdir, f'in{fi}.txt')
                if crlf:
                    # a CRLF (or CR) file, with an empty-valued metadata key: the same graphs
                    c = ('# ::checked\n' + c) if c.strip() else c
                    chunks[fi] = c
                    with open(path, 'w', encoding='utf-8', newline='') as fh:
                        fh.write(c.replace('\n', '\r\n' if p['i'] % 12 else '\r'))
                    ctx.count('crlf_files')
                else:
                    with open(path, 'w', encoding='utf-8') as fh:
                        fh.write(c)
                files.append(path)
            if nfiles >= 2 and p['i'] % 5 == 0:
                # the same file named twice is read twice
                files.append(files[0])
                chunks.append(chunks[0])
                nodes_by_file.append(nodes_by_file[0])
                ctx.count('repeated_file')
            argv_full = argv + ['--encoding=utf-8'] + files
            stdin_text = None
            if nfiles > 1:
                ctx.count('multi_file')
        else:
            argv_full = argv
            stdin_text = chunks[0]
        nodes = [nd for f_ in nodes_by_file for nd in f_]
        for k in ('reconfigure', 'rearrange', 'triples', 'make_variables', 'check'):
            if o[k]:
                ctx.count('opt:' + k)
        det = {'argv': argv, 'inputs': [c[:600] for c in chunks], 'via': 'files' if nfiles else 'stdin'}
        # ---- (1) CLI == reference pipeline
        random.seed(p['i'])
        ok, res = ctx.call(run_main, argv_full, stdin_text, clause='cli:main')
        ctx.count('cli_runs')
        if not ok:
            return
        code, out = res
        random.seed(p['i'])
        try:
            expected = []
            for c in chunks:
                expected.extend(RC.pipeline(c, model, o))
        except Exception as e:
            ctx.fail('reference-pipeline-raised-but-cli-did-not', mech=type(e).__name__,
                     detail=dict(det, exc=repr(e), out=out[:300]))
            return
        cmp_out = RC.strip_error_meta(out) if o['check'] else out
        why, texts = RC.match_output(cmp_out, expected)
        if True:
            if why:
                ctx.fail('cli!=library-pipeline', mech=' '.join(a.split('=')[0] for a in argv if a.startswith('--')
                                                                and not a.startswith(('--indent', '--compact', '--model')))[:60],
                         detail=dict(det, why=why, out=out[:700]))
        if not o['check'] and code != 0:
            ctx.fail('cli:nonzero-exit-without-check', detail=dict(det, exit=code))
        ngraphs = len(expected)
        # ---- (4) no options: output decodes to the same graphs
        normal = [k for k in ('canonicalize_roles', 'reify_edges', 'dereify_edges', 'reify_attributes',
                              'indicate_branches', 'reconfigure', 'rearrange', 'make_variables') if o[k]]
        if not normal and not o['triples'] and not o['check'] and not messy:
            ctx.count('no_option_runs')
            ok, gs = ctx.call(lambda: list(penman.iterdecode(out, model=model)), clause='decode(output)')
            if ok:
                want = [G.graph_content(layout.interpret(Tree(nd), model), rm) for nd in nodes]
                got = [G.graph_content(g, rm) for g in gs]
                if got != want:
                    ctx.fail('no-options:output-decodes-differently', detail=dict(det, out=out[:500]))
        if o['triples'] and not normal and not o['check'] and not messy and not why:
            # --triples without normalisation prints the triples of the documented reading, in order
            blocks = [b for b in out.split('\n\n') if b.strip()]
            exp_blocks = []
            for nd in nodes:
                _top, trs, _occ = interp.interpret(nd, rm)
                exp_blocks.append(' ^\n'.join(f'{r_[1:]}({s_}, {t_})' for s_, r_, t_ in trs))
            ctx.count('triples_reading_runs')
            # (the line style - one triple per line or all on one line - is a formatting option, and the
            #  separator between the graphs of different files is not fixed, O8: compare the flat sequence)
            import re as _re2
            got_flat = _re2.sub(r'[ \n]+', ' ', out).strip()
            want_flat = _re2.sub(r'[ \n]+', ' ', '\n\n'.join(exp_blocks)).strip()
            if got_flat != want_flat:
                k = next((i for i, (a_, b_) in enumerate(zip(got_flat, want_flat)) if a_ != b_),
                         min(len(got_flat), len(want_flat)))
                ctx.fail('--triples!=documented-reading', detail=dict(
                    det, at=k, got=got_flat[max(0, k - 80):k + 80], want=want_flat[max(0, k - 80):k + 80]))
        if set(normal) <= {'rearrange'} and not o['triples'] and not o['check'] and not messy:
            # the same, by the documented reading of input and output texts (no library call): the
            # graphs *and their metadata* are those of the input, also after --rearrange
            def ref_read(text):
                res = []
                for nd, meta in R.ref_iterparse(text):
                    top, triples, _occ = interp.interpret(nd, rm)
                    vs_ = interp.tree_vars(nd)
                    res.append((top, sorted(vs_, key=repr), G.content(triples, vs_, rm), sorted(meta.items())))
                return res
            try:
                want_r = [x for c in chunks for x in ref_read(c)]
                got_r = ref_read(out)
            except R.Reject as e:
                ctx.fail('output-not-in-the-documented-language', detail=dict(det, out=out[:500], exc=repr(e)))
            else:
                ctx.count('reference_reading_runs')
                if got_r != want_r:
                    k = next((i for i, (a_, b_) in enumerate(zip(got_r, want_r)) if a_ != b_), min(len(got_r), len(want_r)))
                    what = 'count' if len(got_r) != len(want_r) else \
                        ['top', 'variables', 'triples', 'metadata'][next(j for j in range(4) if got_r[k][j] != want_r[k][j])]
                    ctx.fail('output-reads-differently-from-input', mech=what + (' --rearrange' if normal else ''),
                             detail=dict(det, out=out[:500], graph=k, differs_in=what,
                                         got=repr(got_r[k] if k < len(got_r) else None)[:400],
                                         want=repr(want_r[k] if k < len(want_r) else None)[:400]))
        # ---- (2) formatting options never change content
        if not o['triples'] and not uses_random(o):
            o2 = dict(o, indent_arg=rng.choice(['no', '0', '5', '-1']), compact=not o['compact'])
            argv2 = argv_of(o2, mflag) + (['--encoding=utf-8'] + files if nfiles else [])
            ok, res2 = ctx.call(run_main, argv2, stdin_text, clause='cli:main')
            if ok:
                t1 = [(t[0], t[1]) for t in R.lex(out)]
                t2 = [(t[0], t[1]) for t in R.lex(res2[1])]
                if t1 != t2:
                    ctx.fail('formatting-options-change-content', detail=dict(det, other=argv2[:8],
                                                                            a=out[:400], b=res2[1][:400]))
        # ---- (3) idempotence
        idem_ok = (not o['reconfigure'] and not o['indicate_branches'] and not o['triples']
                   and not o['check'] and not uses_random(o) and not messy)
        if idem_ok and o['reify_edges'] and o['reify_attributes'] and any(has_inverted_attribute(nd, rm) for nd in nodes):
            idem_ok = False
        if idem_ok and o['reify_attributes'] and fmt:
            idem_ok = False    # reified attributes become concepts; relabelling then derives new prefixes
        if idem_ok and o['canonicalize_roles']:
            # the input must still be well formed once its roles are canonical: ':mod-of (x ...)' next
            # to ':domain x' are two distinct triples that the normalisation table makes one
            def canon_tree(nd):
                return (nd[0], [((rm.canon_role(r.partition('~')[0]) + r.partition('~')[1] + r.partition('~')[2])
                                 if r != '/' else r, canon_tree(t) if isinstance(t, tuple) else t)
                                for r, t in nd[1]])
            if not all(_trees.wellformed(canon_tree(nd), rm) for nd in nodes):
                idem_ok = False
                ctx.count('idempotence_skipped:canonicalisation-merges-triples')
        if idem_ok:
            ctx.count('idempotence_runs')
            ok, res3 = ctx.call(run_main, argv, out, clause='cli:main(second pass)')
            # the separator between graphs of different input files is not fixed (O8):
            # compare graph text by graph text
            why3 = RC.match_output(res3[1], [[t] for t in texts])[0] if ok and not why else None
            if why3:
                # roles of the first output that the model's normalisation table would rewrite
                noncanon = sorted({t[1].partition('~')[0] for t in R.lex(out)
                                   if t[0] == 'ROLE' and t[1].partition('~')[0] in rm.normalizations})
                det = dict(det, noncanonical_roles_in_first_output=noncanon,
                           options=[k for k in ('canonicalize_roles', 'reify_edges', 'dereify_edges',
                                                'reify_attributes', 'rearrange', 'make_variables') if o[k]])
                ctx.fail('not-idempotent', mech=('normalisable-role-in-output ' if noncanon else '') +
                         ' '.join(a.split('=')[0] for a in argv if a.startswith('--')
                                  and not a.startswith(('--indent', '--compact', '--model')))[:60],
                         detail=dict(det, why=why3, first=out[:600], second=res3[1][:600]))
        # ---- real process, two hash seeds
        if p['i'] % 25 == 0 and not uses_random(o):
            outs = []
            for hs in ('0', '99'):
                env = dict(os.environ, PYTHONHASHSEED=hs, PYTHONPATH=_core.REPO, PYTHONIOENCODING='utf-8')
                r = subprocess.run([sys.executable, '-m', 'penman'] + argv_full,
                                   input=(stdin_text or '').encode('utf-8'), capture_output=True, env=env,
                                   cwd=tmpdir, timeout=300)
                outs.append((r.returncode, r.stdout.decode('utf-8', 'replace')))
                ctx.count('subprocess_runs')
            if outs[0] != outs[1]:
                ctx.fail('cli:differs-across-hash-seeds', detail=dict(det, a=outs[0][1][:300], b=outs[1][1][:300]))
            if outs[0] != (code, out):
                ctx.fail('cli:subprocess!=in-process', detail=dict(det, sub=outs[0][1][:400], inproc=out[:400],
                                                                  sub_exit=outs[0][0], exit=code))
        ctx.case((argv, chunks), bool(normal) and ngraphs >= 1)
        if ctx.want_sample() and len(normal) >= 2 and ngraphs >= 2:
            ctx.sample({'argv': [a for a in argv if not a.startswith('--model')], 'input': chunks[0][:300],
                        'output': out[:300]})
    finally:
        import shutil
        shutil.rmtree(tmpdir, ignore_errors=True)
