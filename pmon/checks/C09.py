"""C09 - the same text means the same graphs in every container and stream framing.

Events that refute: two containers of one text giving different graph
sequences (triples, tops, markers, metadata); loads(dumps(gs)) != gs; a
metadata comment attached to the wrong graph; dump to a file differing from
dumps; a file handle left open (ResourceWarning)."""
import gc
import io
import os
import re
import tempfile
import warnings

import penman
from penman import layout
from penman.tree import Tree

from pmon import canon
from pmon.gen import trees as T, models as M
from pmon.ref import lexer as R
from pmon.checks import _trees
from pmon.checks.C01 import rand_meta

ID = 'C09'
RULE = ('sequences of 0-4 graphs interpreted from WF-T trees with C01 metadata (multiple keys, empty '
        'values, values containing ; ( ) " # VT FF NEL U+2028 U+2029 NBSP) x indent in {-1, None, 3} x '
        'line terminators {LF, CRLF, CR, mixed} x containers {str, list of lines without and with '
        'terminators, io.StringIO(newline=None), plain io.StringIO (texts without CR), real UTF-8 '
        'file by name and by handle, lines with CRLF / CR / their own terminators, plain StringIO over CRLF '
        'text; file encodings utf-8, utf-16, utf-32-le, utf-8-sig} x separators {blank line, newline, space, none}; dump to a name / '
        'to a handle vs dumps; models default and AMR. Each decode is recorded as an event '
        '(case, container, digest) and the digests of one case must coincide. Non-trivial: >=2 '
        'graphs, or metadata with an exotic separator. One stream of 2600-5000 graphs (>64 Ki characters) per '
        'shard through string, file name, Path, handle, lines, StringIO and dump/load.')
ANCHORS = ['penman.codec:_load', 'penman.codec:_loads', 'penman.codec:_dump', 'penman.codec:_dumps',
           'penman.codec:_dump_stream', 'penman.codec:PENMANCodec.iterdecode', 'penman._lexer:lex',
           'penman._parse:_parse_comments']
PROBES = {'C17': 10, 'C04': 10, 'C08': 10, 'C07': 10}
MIN_EVAL = {'quick': 3000, 'thorough': 60000}     # decode events
REQUIRED_COUNTERS = ['events', 'container:file', 'container:filehandle', 'container:lines',
                     'exotic_separator_in_metadata', 'nl:CR', 'nl:mixed', 'long_streams']
EXOTIC = ('\x0b', '\x0c', '\x1c', '\x1d', '\x1e', '\x85', '\u2028', '\u2029')


def cases(ctx):
    q = ctx.tier == 'quick'
    n = 120 if q else 4000
    # one big stream per shard (files far larger than any read buffer)
    yield 'big', {'i': ctx.shard}
    ctx.new_phase()
    for i in range(n):
        if not ctx.time_left():
            break
        yield 'rand', {'i': i}


def sig(gs):
    return [canon.graph_sig(g) for g in gs]


def big(ctx, p):
    import pathlib
    rng = ctx.rng('big', p['i'])
    n = rng.choice([2600, 3500, 5000])
    parts = []
    for k in range(n):
        parts.append(rng.choice(['(a%d / alpha)' % k, '(b%d / beta :ARG0 (c / gamma))' % k,
                                 '# ::id %d\n(d%d / delta :quant %d)' % (k, k, k),
                                 '(e%d / eps\n   :mod (f / phi))' % k]))
    text = '\n\n'.join(parts) + '\n'
    ctx.count('big_stream_chars', len(text))
    tmpdir = tempfile.mkdtemp(prefix='pmon-c09-')
    try:
        path = os.path.join(tmpdir, 'big.txt')
        with open(path, 'w', encoding='utf-8') as fh:
            fh.write(text)

        def via_handle():
            with open(path, encoding='utf-8') as fh:
                return penman.load(fh)
        ok, base = ctx.call(penman.loads, text, clause='loads(big)')
        if not ok:
            return
        want = sig(base)
        if len(base) != n:
            ctx.fail('container!=generating-graphs', mech='str:count', detail={'graphs': n, 'got': len(base)})
        for cname, f in (('file', lambda: penman.load(path, encoding='utf-8')),
                         ('Path', lambda: penman.load(pathlib.Path(path))),
                         ('filehandle', via_handle),
                         ('lines', lambda: list(penman.iterdecode(text.split('\n')))),
                         ('StringIO', lambda: penman.load(io.StringIO(text)))):
            ok, res = ctx.call(f, clause=f'decode[{cname}](big)')
            ctx.count('events')
            ctx.count('container:' + cname)
            if ok and sig(res) != want:
                ctx.fail('container!=generating-graphs', mech=f'{cname}:big-stream',
                         detail={'container': cname, 'chars': len(text), 'graphs': n, 'got': len(res)})
        outp = os.path.join(tmpdir, 'big-out.txt')
        ok, _ = ctx.call(penman.dump, base, outp, clause='dump(name)(big)')
        if ok:
            ok, back = ctx.call(penman.load, outp, clause='load(dump)(big)')
            if ok and sig(back) != want:
                ctx.fail('load(dump(gs))!=gs', mech='big-stream', detail={'graphs': n, 'got': len(back)})
    finally:
        import shutil
        shutil.rmtree(tmpdir, ignore_errors=True)
    ctx.case(('big', p['i']), True)


def oracle(ctx, kind, p):
    if kind == 'big':
        return big(ctx, p)
    if kind != 'rand':
        return
    rng = ctx.rng('rand', p['i'])
    mname = 'amr' if p['i'] % 4 == 3 else 'default'
    _, model, rm, _ = M.get(mname)
    k = rng.randrange(0, 5)
    if p['i'] % 25 == 24:
        k = rng.choice([33, 65, 130])     # long streams (buffer / block boundaries)
        ctx.count('long_streams')
    gs = []
    exotic = False
    for _ in range(k):
        node = T.rand_tree(rng, rm, n_nodes=rng.choice([1, 2]) if k > 10 else None)
        if not _trees.wellformed(node, rm):
            continue
        meta = rand_meta(rng)
        if not gs and p['i'] % 6 == 1:
            # the first lines of the stream are comments that *talk about* encodings (they are
            # metadata, not instructions to whoever opens the file), and the text is not ASCII
            meta = dict([rng.choice([('coding:', 'latin-1'), ('note', '-*- coding: iso-8859-15 -*-'),
                                     ('source', 'vim: set fileencoding=cp1252 :')]), ('snt', 'caf\u00e9 \u00e5')],
                        **{k_: v_ for k_, v_ in meta.items() if k_ not in ('coding:', 'note', 'source', 'snt')})
            ctx.count('encoding_talk_in_first_lines')
        if any(c in v for v in meta.values() for c in EXOTIC):
            exotic = True
        ok, g = ctx.call(layout.interpret, Tree(node, metadata=meta), model, clause='interpret')
        if ok:
            gs.append(g)
    if exotic:
        ctx.count('exotic_separator_in_metadata')
    want = sig(gs)
    events = []
    tmpdir = tempfile.mkdtemp(prefix='pmon-c09-')
    try:
        with warnings.catch_warnings(record=True) as wlist:
            warnings.simplefilter('always', ResourceWarning)
            for indent in (-1, None, 3):
                ok, text_lf = ctx.call(penman.dumps, gs, model=model, indent=indent, clause='dumps')
                if not ok:
                    continue
                ok_g, text_gen = ctx.call(penman.dumps, (g for g in gs), model=model, indent=indent,
                                          clause='dumps(generator)')
                if ok_g and text_gen != text_lf:
                    ctx.fail('dumps(generator)!=dumps(list)', detail={'list': text_lf[:300], 'generator': text_gen[:300]})
                if indent == -1 and p['i'] % 3 == 0 and gs:
                    # a text that does not start with a graph: whatever it means, it means the same
                    # in every container
                    for pre in ('\ufeff', '\u2028', 'x ', '\x0c', ') ', '\n\n', 'SUF:\n# end', 'SUF: # x', 'SUF:\n\n\n',
                                'SUF:\n# ::k v\n', 'SUF:\r', 'SUF: ('):
                        # (SUF: the same after the last graph - a trailing comment, blank lines, a lone CR,
                        #  an unfinished graph: whatever it means, it means the same in every container)
                        t2 = text_lf + pre[4:] if pre.startswith('SUF:') else pre + text_lf
                        p2 = os.path.join(tmpdir, 'pre.txt')
                        with open(p2, 'w', encoding='utf-8', newline='') as fh:
                            fh.write(t2)
                        outs = {}
                        for cname, f in (('str', lambda: penman.loads(t2, model=model)),
                                         ('lines', lambda: list(penman.iterdecode(R.split_lines(t2), model=model))),
                                         ('StringIO', lambda: penman.load(io.StringIO(t2), model=model)),
                                         ('file', lambda: penman.load(p2, model=model, encoding='utf-8'))):
                            try:
                                outs[cname] = ('ok', sig(f()))
                            except penman.DecodeError as e:
                                outs[cname] = ('DecodeError', e.lineno, e.offset)
                            except Exception as e:
                                outs[cname] = ('exc', type(e).__name__)
                            ctx.count('events')
                        if len({repr(v) for v in outs.values()}) > 1:
                            ctx.fail('containers-disagree(prefixed text)', mech=repr(pre),
                                     detail={'prefix': pre, 'text': t2[:200],
                                             'outcomes': {k: repr(v)[:120] for k, v in outs.items()}})
                # the encoding argument is honoured on the way in and on the way out
                enc = ('utf-8', 'utf-16', 'utf-8', 'utf-32-le', 'utf-8-sig')[(p['i'] + (indent or 0)) % 5]
                ctx.count('encoding:' + enc)
                for nl in ('LF', 'CRLF', 'CR', 'mixed'):
                    if nl == 'LF':
                        text = text_lf
                    elif nl == 'CRLF':
                        text = text_lf.replace('\n', '\r\n')
                    elif nl == 'CR':
                        text = text_lf.replace('\n', '\r')
                    else:
                        text = re.sub('\n', lambda m: rng.choice(['\n', '\r\n', '\r']), text_lf)
                    ctx.count('nl:' + nl)
                    path = os.path.join(tmpdir, 'in.txt')
                    with open(path, 'w', encoding=enc, newline='') as fh:
                        fh.write(text)
                    lines = R.split_lines(text)

                    def via_handle():
                        with open(path, encoding=enc) as fh:
                            return penman.load(fh, model=model)
                    import pathlib

                    def via_iter_handle():
                        with open(path, encoding=enc) as fh:
                            return list(penman.iterdecode(fh, model=model))
                    containers = [
                        ('Path', lambda: penman.load(pathlib.Path(path), model=model, encoding=enc)),
                        ('generator-of-lines', lambda: list(penman.iterdecode((ln for ln in lines), model=model))),
                        ('iterdecode(filehandle)', via_iter_handle),
                        ('codec.iterdecode', lambda: list(penman.PENMANCodec(model=model).iterdecode(text))),
                        ('str', lambda: penman.loads(text, model=model)),
                        ('iterdecode(str)', lambda: list(penman.iterdecode(text, model=model))),
                        ('lines', lambda: list(penman.iterdecode(lines, model=model))),
                        ('lines+nl', lambda: list(penman.iterdecode([ln + '\n' for ln in lines], model=model))),
                        ('lines+crlf', lambda: list(penman.iterdecode([ln + '\r\n' for ln in lines], model=model))),
                        ('lines+cr', lambda: list(penman.iterdecode([ln + '\r' for ln in lines], model=model))),
                        ('lines+own-terminator', lambda: list(penman.iterdecode(R.split_lines(text, keepends=True),
                                                                                 model=model))),
                        ('StringIO(newline=None)', lambda: penman.load(io.StringIO(text, newline=None), model=model)),
                        ('file', lambda: penman.load(path, model=model, encoding=enc)),
                        ('filehandle', via_handle),
                    ]
                    import locale as _locale
                    if enc == 'utf-8' and _locale.getpreferredencoding(False).lower().replace('-', '') == 'utf8':
                        # the encoding argument left at its default (the platform's, UTF-8 here)
                        containers.append(('file(default encoding)', lambda: penman.load(path, model=model)))
                    if re.search(r'\r(?!\n)', text) is None:     # a plain StringIO does not end lines at a lone CR (O6)
                        containers.append(('StringIO', lambda: penman.load(io.StringIO(text), model=model)))
                    for cname, f in containers:
                        ok, res = ctx.call(f, clause=f'decode[{cname}]')
                        ctx.count('events')
                        ctx.count('container:' + cname.split('(')[0])
                        if not ok:
                            continue
                        got = sig(res)
                        events.append((indent, nl, cname, got == want))
                        if got != want:
                            which = _first_diff(got, want)
                            ctx.fail('container!=generating-graphs', mech=f'{cname}:{which}',
                                     detail={'container': cname, 'line_terminator': nl, 'indent': indent,
                                             'text': text[:500], 'difference': which, 'model': mname})
                # one codec, two decodes alive at the same time (each generator has its own position)
                codec1 = penman.PENMANCodec(model=model)

                def interleaved():
                    a_, b_ = [], []
                    it1, it2 = codec1.iterdecode(text_lf), codec1.iterdecode(R.split_lines(text_lf))
                    first = next(it1, None)
                    if first is not None:
                        a_.append(first)
                    for x_, y_ in zip(it1, it2):
                        a_.append(x_)
                        b_.append(y_)
                    b_.extend(it2)
                    return a_, b_
                ok_i, res_i = ctx.call(interleaved, clause='interleaved decodes on one codec')
                ctx.count('events')
                if ok_i and (sig(res_i[0]) != want or sig(res_i[1]) != want):
                    ctx.fail('container!=generating-graphs', mech='interleaved-on-one-codec',
                             detail={'graphs': len(want), 'got': [len(res_i[0]), len(res_i[1])], 'text': text_lf[:300]})
                # dump to a file name / handle vs dumps
                outp = os.path.join(tmpdir, 'out.txt')
                import pathlib
                target = pathlib.Path(outp) if p['i'] % 2 else outp
                ok, _ = ctx.call(penman.dump, (g for g in gs) if p['i'] % 3 == 0 else gs, target, model=model,
                                 indent=indent, encoding=enc, clause='dump(name)')
                if ok:
                    with open(outp, encoding=enc, newline='') as fh:
                        raw = fh.read()
                    if gs and raw != text_lf + '\n' or (not gs and raw != ''):
                        ctx.fail('dump(name)!=dumps', detail={'file': raw[:300], 'dumps': text_lf[:300]})
                    ok, back = ctx.call(penman.load, outp, model=model, encoding=enc, clause='load(dump)')
                    if ok and sig(back) != want:
                        ctx.fail('load(dump(gs))!=gs', detail={'file': raw[:400]})
                buf = io.StringIO()
                ok, _ = ctx.call(penman.dump, gs, buf, model=model, indent=indent, clause='dump(handle)')
                if ok and (buf.getvalue() != (text_lf + '\n' if gs else '')):
                    ctx.fail('dump(handle)!=dumps', detail={'handle': buf.getvalue()[:300], 'dumps': text_lf[:300]})
                # separators
                parts = []
                for g in gs:
                    ok, s = ctx.call(penman.encode, g, model=model, indent=indent, clause='encode')
                    if ok:
                        parts.append(s)
                if len(parts) == len(gs):
                    for sep in ('\n\n', '\n', ' ', ''):
                        # (with ' ' or '' the first metadata comment of a graph starts on the last line of the
                        #  previous one: it is still that graph's comment, and runs to the end of its line)
                        ok, res = ctx.call(penman.loads, sep.join(parts), model=model, clause='loads(sep)')
                        ctx.count('events')
                        if ok and sig(res) != want:
                            ctx.fail('separator-changes-graphs', mech=repr(sep),
                                     detail={'separator': sep, 'text': sep.join(parts)[:500]})
            gc.collect()
        leaks = [w for w in wlist if issubclass(w.category, ResourceWarning)]
        if leaks:
            ctx.fail('file-handle-leak', detail={'warning': str(leaks[0].message)})
    finally:
        import shutil
        shutil.rmtree(tmpdir, ignore_errors=True)
    ctx.evaluations += max(0, len(events) - 1)     # one evaluation per recorded decode event
    ctx.case((want,), len(gs) >= 2 or exotic)
    if ctx.want_sample() and len(gs) >= 2 and exotic:
        ctx.sample({'text': penman.dumps(gs, model=model, indent=None)[:400], 'graphs': len(gs),
                    'events': len(events)})


def _first_diff(got, want):
    if len(got) != len(want):
        return f'graph-count {len(got)} vs {len(want)}'
    for i, (a, b) in enumerate(zip(got, want)):
        for name, x, y in zip(('top', 'triples', 'markers', 'metadata'), a, b):
            if x != y:
                return name
    return '?'
