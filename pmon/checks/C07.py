"""C07 - the parser accepts exactly the documented language and fails cleanly.

Events that refute: a string on which parse / iterparse / parse_triples raises
anything but DecodeError, exceeds the step budget, or disagrees with the
reference recogniser on acceptance, the resulting tree(s)/triples, or the
reported (lineno, offset)."""
from pmon.gen import strings as S, trees as T
from pmon.checks import _text

ID = 'C07'
PYTEST_LAW = 'C07'     # also run /repo's own tests with this property's law attached
RULE = ('bounded-exhaustive strings over the 26-character delimiter alphabet (quick: length<=3 '
        'plus a seeded slice of length 4; thorough: length<=4 complete, length 5 over a '
        '14-character sub-alphabet), exhaustive token sequences over 22 tokens joined with and '
        'without blanks, seeded random Unicode/long inputs, valid texts from the tree generator '
        'with truncations and one-character corruptions, every prefix of short valid graph texts and of '
        'triple conjunctions in all documented spacing styles, nesting to 200 levels, characters '
        'inserted exactly at token boundaries, conjunctions of 1100-4000 triples in every junction '
        'style and streams of thousands of graphs. A case is '
        'non-trivial when at least one of the three entry points accepts it or it is a corruption '
        'of an accepted text; enumerated strings are distinct by construction, random ones are '
        'de-duplicated by digest.')
ANCHORS = ['penman._parse:_parse_node', 'penman._parse:_parse_edge', 'penman._parse:_parse_triple',
           'penman._parse:_parse_triples', 'penman._parse:_parse_comments',
           'penman._lexer:TokenIterator.expect', 'penman._lexer:TokenIterator.accept',
           'penman._lexer:TokenIterator.peek', 'penman._lexer:TokenIterator.error']
PROBES = {'C07': 0, 'C08': 40}     # the driver itself decides C07 on every string
MIN_EVAL = {'quick': 20000, 'thorough': 400000}
REQUIRED_COUNTERS = ['accepted', 'rejected', 'deep_ok', 'prefixes', 'long_texts', 'regex_time_probe']
ASSUMPTIONS = ['the reference recogniser (pmon/ref/lexer.py) reads docs/notation.rst correctly',
               'regular-expression time inside the lexer is only guarded by the wall-clock watchdog']

BATCH = 2000


def cases(ctx):
    q = ctx.tier == 'quick'
    # ---- first of all (every shard): does the lexer finish on short adversarial lines?  If not, that
    # is the verdict, and the other workloads - which would hang in the same regex, out of reach of
    # the step budget - are not run
    yield 'regex-time', {}
    if getattr(ctx, 'lexer_hangs', False):
        return
    # ---- exhaustive strings
    plans = [(S.ALPHA26, L) for L in range(0, 4 if q else 5)]
    if not q:
        plans.append((S.ALPHA14, 5))
        plans.append((S.ALPHA10, 6))
    else:
        plans.append((S.ALPHA10, 4))
    b = 0
    for alpha, L in plans:
        total = len(alpha) ** L
        for start in range(0, total, BATCH):
            if ctx.mine(b):
                yield 'strs', {'alpha': alpha, 'len': L, 'start': start, 'count': BATCH, 'sep': ''}
            b += 1
    # seeded slice of the next length (quick only)
    if q:
        rng = ctx.rng('slice')
        total = 26 ** 4
        for _ in range(6):
            yield 'strs', {'alpha': S.ALPHA26, 'len': 4, 'start': rng.randrange(total - BATCH),
                           'count': BATCH, 'sep': '', 'partial': True}
    # ---- exhaustive token sequences
    maxlen = 3 if q else 5
    for L in range(0, maxlen + 1):
        total = len(S.TOKENS22) ** L
        for sep in ('', ' '):
            for start in range(0, total, BATCH):
                if ctx.mine(b):
                    yield 'strs', {'alpha': S.TOKENS22, 'len': L, 'start': start, 'count': BATCH,
                                   'sep': sep}
                b += 1
    if q:
        rng = ctx.rng('tokslice')
        total = 22 ** 4
        for _ in range(6):
            yield 'strs', {'alpha': S.TOKENS22, 'len': 4, 'start': rng.randrange(total - BATCH),
                           'count': BATCH, 'sep': rng.choice(['', ' ']), 'partial': True}
    # ---- deep nesting
    for d in (1, 2, 50, 150, 199, 200):
        for broken in (None, 'trunc', 'extra', 'slash'):
            if ctx.mine(b):
                yield 'deep', {'depth': d, 'broken': broken}
            b += 1
    # ---- every prefix (truncation point) of short valid texts, graph and triple notation
    ctx.new_phase()
    for i in range(150 if q else 2500):
        if not ctx.time_left():
            break
        yield 'prefixes', {'i': i}
    # ---- every unusual character in first position / before the first token
    if ctx.shard == 0:
        yield 'firstchar', {}
    # ---- long flat texts (hundreds of tokens on few nesting levels) and their truncations
    for i in range(12 if q else 150):
        yield 'long', {'i': i}
    # ---- quantity without nesting: conjunctions of thousands of triples in every junction style,
    # streams of thousands of graphs (nothing in the language is recursive there)
    for i in range(4 if q else 24):
        if i % ctx.nshards == ctx.shard:
            yield 'many', {'i': i}
    # ---- random
    n = 1500 if q else 20000
    ctx.new_phase()
    for i in range(n):
        if not ctx.time_left():
            break
        yield 'rand', {'i': i}


def oracle(ctx, kind, p):
    if kind == 'strs':
        exhaustive = not p.get('partial')
        n = 0
        for s in S.batch(p['alpha'], p['len'], p['start'], p['count'], p.get('sep', '')):
            ctx.current = ['str', {'s': s}]
            acc = _text.check_parsers(ctx, s, budget=(n % 50 == 0))
            ctx.enumerated(nontrivial=acc > 0)
            ctx.count('accepted' if acc else 'rejected')
            if acc and ctx.want_sample() and len(s) > 2:
                ctx.sample({'string': s, 'accepted_by': acc})
            n += 1
        if exhaustive:
            key = f"len{p['len']}/alphabet{len(p['alpha'])}/sep{p.get('sep', '')!r}"
            ctx.exhaustive[key] = ctx.exhaustive.get(key, 0) + n
    elif kind == 'str':
        acc = _text.check_parsers(ctx, p['s'], budget=True, containers=True)
        ctx.case(p['s'], acc > 0)
    elif kind == 'deep':
        s = S.nested(p['depth'], broken=p['broken'])
        ctx.current = ['str', {'s': s}]
        acc = _text.check_parsers(ctx, s, budget=True, containers=True)
        ctx.case(s, True)
        if acc and p['depth'] >= 199:
            ctx.count('deep_ok')
        # the harness must not eat the stack the code under test needs (DESIGN 2.3)
        from pmon import monitors
        import sys
        ctx.counters['max_harness_frames'] = max(ctx.counters.get('max_harness_frames', 0),
                                                 monitors.stack_depth())
        ctx.notes['recursion_limit_during_code_under_test'] = sys.getrecursionlimit()
        ctx.count('accepted' if acc else 'rejected')
    elif kind == 'firstchar':
        for ch in S.UNI + S.ALPHA26:
            for body in ('(a / b)', 'instance(a, b)', '# ::id 1\n(a / b)', '(a / b)\n(c / d)'):
                for s in (ch + body, ch + ' ' + body, body + ch, body[:3] + ch + body[3:]):
                    ctx.current = ['str', {'s': s}]
                    acc = _text.check_parsers(ctx, s, containers=True)
                    ctx.case(s, True)
                    ctx.count('accepted' if acc else 'rejected')
    elif kind == 'regex-time':
        # Lexing runs in C inside the regex engine, where the step budget cannot look.  Inputs
        # built to provoke catastrophic backtracking (unterminated strings followed by runs of
        # escapes, long alignment lists, long runs of one character) are parsed by a child
        # interpreter; the whole batch normally takes milliseconds, the limit is 120 s.
        import subprocess
        import sys
        from pmon import core
        batch = []
        for n in (10, 20, 30, 40, 60):
            batch += ['(a :op "' + '\\"' * n, '(a / "' + '\\\\' * n + 'x', '(a / b~e.' + '1,' * n, '(a / b~' + '1' * n + ',',
                      '(a ' + ':' * n, '#' * n + '(', '(a / ' + '"' * (2 * n + 1), 'r(a, "' + '\\"' * n, '~' * n + 'e.1',
                      # an opening quote that is never closed on its line, followed by ordinary characters
                      '(a :op "' + 'x' * n, '(a / "' + 'ab ' * n + ')', 'r(a, "' + 'y' * n, '"' + 'z' * (4 * n)]
        code = ('import sys, json, penman\n'
                'for s in json.load(sys.stdin):\n'
                '    for f in (penman.parse, lambda x: list(penman.iterparse(x)), penman.parse_triples):\n'
                '        try: f(s)\n'
                '        except penman.DecodeError: pass\n'
                'print("done")\n')
        import json as _json
        try:
            r = subprocess.run([sys.executable, '-B', '-c', code], input=_json.dumps(batch), capture_output=True,
                               text=True, timeout=120, env=dict(__import__('os').environ, PYTHONPATH=core.REPO))
            if 'done' not in r.stdout:
                ctx.fail('regex-time:child-failed', detail={'stderr': r.stderr[-600:]})
        except subprocess.TimeoutExpired:
            ctx.lexer_hangs = True
            ctx.fail('termination:lexer-does-not-finish', mech='regex',
                     detail={'batch_size': len(batch), 'limit_s': 120,
                             'note': 'short adversarial inputs (<= 130 characters) not parsed within 120 s'},
                     payload=['regex-time', {}])
        ctx.count('regex_time_probe', len(batch))
        ctx.case('regex-time', True)
    elif kind == 'long':
        rng = ctx.rng('long', p['i'])
        nb = rng.choice([20, 21, 31, 32, 33, 63, 64, 65, 100, 127, 128, 129, 200])
        parts = ['(h / hub']
        for k in range(nb):
            parts.append(rng.choice([f':op{k + 1} c{k}', f':ARG{k % 10} (n{k} / k{k})', f':mod~e.{k} "s {k}"~e.{k},{k + 1}',
                                     f':r{k}', f':x-of (m{k} :y h)']))
        s = rng.choice([' ', '\n   ', '\t']).join(parts) + ')'
        if p['i'] % 3 == 1:
            s = s[:rng.randrange(len(s) // 2, len(s))]
        elif p['i'] % 3 == 2:
            s = s + '\n\n' + s + ' ' + s
        ctx.current = ['str', {'s': s}]
        acc = _text.check_parsers(ctx, s, budget=True, containers=True)
        ctx.case(s, True)
        ctx.count('accepted' if acc else 'rejected')
        ctx.count('long_texts')
    elif kind == 'many':
        rng = ctx.rng('many', p['i'])
        n = rng.choice([1100, 1500, 2500, 4000])
        if p['i'] % 2 == 0:
            styles = ['^', ' ^', '^ ', ' ^ ', '\n^', ' ^\n', '^\n']
            st = styles[(p['i'] // 2) % len(styles)]
            mixed = p['i'] % 8 == 6
            parts = []
            for k in range(n):
                parts.append(rng.choice(['r(a,b)', f'op{k % 7}(x{k}, y)', 'q(a, "s ^ t")', f'instance(v{k},c)']))
                if k < n - 1:
                    parts.append(rng.choice(styles) if mixed else st)
            s = ''.join(parts)
            ctx.count('long_conjunctions')
        else:
            sep = ['', ' ', '\n', '\n\n'][(p['i'] // 2) % 4]
            s = sep.join(rng.choice(['(a)', '(b / c)', '(d :r e)', '# ::id 1\n(f / g :h (i))']) for _ in range(n))
            ctx.count('long_streams')
        ctx.current = ['str', {'s': s}]
        acc = _text.check_parsers(ctx, s, budget=False, containers=False)
        ctx.case(('many', p['i'], len(s)), True)
        ctx.count('accepted' if acc else 'rejected')
    elif kind == 'prefixes':
        rng = ctx.rng('prefixes', p['i'])
        import penman
        if p['i'] % 2:
            t = T.rand_tree(rng, n_nodes=rng.choice([1, 2, 3]), max_branch=3, allow_empty_target=True)
            s = penman.format(penman.Tree(t), indent=rng.choice([None, 1]))
        else:
            # a triple conjunction in one of the documented spacing styles
            comma = rng.choice([',', ', ', ' ,', ' , '])
            carets = ['^', ' ^', ' ^ ', ' ^\n']
            parts = []
            for _ in range(rng.randrange(1, 5)):
                tgt = rng.choice(['b', '"s t"', '7', 'x-01', '', '"q)^("'])
                parts.append(f"{rng.choice(['instance', 'ARG0', 'mod-of', ':op1', '^sup', 'a^b'])}({rng.choice(['a', 'x1', 'b.c'])}{comma}{tgt})")
            s = parts[0]
            one = rng.choice(carets)
            for pt in parts[1:]:
                s += (one if p['i'] % 4 else rng.choice(carets)) + pt
        tails = [s + t for t in (' x', ' (', ' ^', ' ^ ', ')', ' # c', '\n(', ' "q"', ',', ' :r', '~1')]
        for k in range(len(s) + 1 + len(tails)):
            pre = s[:k] if k <= len(s) else tails[k - len(s) - 1]
            ctx.current = ['str', {'s': pre}]
            acc = _text.check_parsers(ctx, pre, budget=(k % 20 == 0))
            ctx.case(pre, True)
            ctx.count('accepted' if acc else 'rejected')
            ctx.count('prefixes')
    elif kind == 'rand':
        rng = ctx.rng('rand', p['i'])
        k = p['i'] % 4
        import penman
        if k == 0:
            s = S.random_text(rng, 80)
            nt = False
        else:
            t = T.rand_tree(rng, deep=(k == 3), n_nodes=rng.choice([1, 2, 4, 8, 20]) if k == 3 else None,
                            allow_empty_target=True)
            s = penman.format(penman.Tree(t), indent=rng.choice([None, -1, 0, 2]))
            if k >= 2:
                s = (S.insert_at_token_boundary(rng, s, rng.choice([1, 1, 2])) if p['i'] % 8 >= 6
                     else S.corrupt_text(rng, s))
            if rng.random() < 0.15:
                # a comment on the same line as the end of the previous graph (whose line may itself
                # contain '::'), then the next graph: the comment belongs to the next graph as written
                one = penman.format(penman.Tree(t), indent=None)
                t2 = T.rand_tree(rng, n_nodes=rng.choice([1, 2]))
                s = (one + rng.choice([' ', '  ', '']) + '#' + rng.choice([' first', ' ::k v', '::a 1 ::b', ' x::y'])
                     + '\n' + penman.format(penman.Tree(t2), indent=rng.choice([None, -1])))
                ctx.count('same_line_trailing_comment')
            elif rng.random() < 0.3:
                s = '# ::id %d ::x y\n' % p['i'] + s + '\n\n' + s
            elif rng.random() < 0.4:
                s = '\n'.join(S.comment_line(rng) for _ in range(rng.randrange(1, 4))) + '\n' + s
            nt = True
        ctx.current = ['str', {'s': s}]
        acc = _text.check_parsers(ctx, s, budget=(p['i'] % 10 == 0), containers=True)
        ctx.case(s, nt or acc > 0)
        ctx.count('accepted' if acc else 'rejected')
        if ctx.want_sample() and acc:
            ctx.sample({'string': s[:200], 'accepted_by': acc})
