"""Extra workload: the repository's own test suite with the always-on laws on."""
import json
import os
import subprocess
import sys
import tempfile

from pmon import core


def run(ctx, law):
    """Run /repo's tests under the plugin; record violations of *law*'s
    property (others are reported as foreign by the framework)."""
    fd, out = tempfile.mkstemp(prefix='pmon-pytest-', suffix='.json')
    os.close(fd)
    env = dict(os.environ, PMON_PLUGIN_OUT=out, PYTHONHASHSEED='0', PYTHONDONTWRITEBYTECODE='1',
               PYTHONPATH=os.pathsep.join([core.REPO, core.ROOT, os.path.join(core.ROOT, '.deps')]))
    try:
        r = subprocess.run([sys.executable, '-B', '-m', 'pytest', '-p', 'pmon.pytest_plugin', '-q',
                            '-p', 'no:cacheprovider', '-x', '--timeout=900', 'tests'],
                           cwd=core.REPO, env=env, capture_output=True, text=True, timeout=900)
        try:
            with open(out) as fh:
                res = json.load(fh)
        except Exception:
            ctx.count('pytest_plugin_no_result')
            return None
    finally:
        try:
            os.remove(out)
        except OSError:
            pass
    n = res['evaluations'].get(law, 0)
    ctx.count('pytest_law_evaluations', n)
    ctx.count('pytest_tests', res.get('tests_collected', 0))
    ctx.notes['pytest_plugin'] = {'law_evaluations': res['evaluations'],
                                  'tests_collected': res.get('tests_collected'),
                                  'tests_failed': res.get('tests_failed')}
    for v in res['violations']:
        ctx.fail('repo-tests:' + v['clause'], detail=v['detail'], mech=v['mech'], prop=v['property'],
                 payload=['pytest', {}])
    ctx.evaluations += n
    return res
