"""C17 - calls are pure and deterministic.

Events that refute: an argument whose canonical snapshot differs after a call
documented as returning a new object; a result digest differing between
repeated calls, shuffled call orders, processes, hash seeds, or "decoded in a
child, pickled, used in the parent"; CLI bytes differing across hash seeds; a
side-effect audit event inside a pure call.

Machinery: the same seeded case list is executed by worker interpreters
(`python -m pmon.checks.C17 worker ...`) under PYTHONHASHSEED 0, 1, 7, 123 and
random, once with shuffled operation order; each prints one event per call
(case, op, result digest, purity flag); the oracle joins the logs offline."""
import hashlib
import json
import os
import pickle
import random
import subprocess
import sys

ID = 'C17'
PYTEST_LAW = 'C17'     # also run /repo's own tests with this property's law attached
RULE = ('the same seeded case list (a decoded WF-T graph g and a hand-built shuffled WF-G graph h per '
        'case, AMR and default models) executed in 6 worker interpreters: PYTHONHASHSEED in '
        '{0, 1, 7, 123, random} plus one run with shuffled operation order and one with the cases in '
        'reverse order (another interleaving of models and graphs in one process); 24 operations per case '
        '(a quarter of the AMR cases write relations twice, directly and as a collapsible reified node; '
        'encode from every top, reconfigure with sorted keys, every transformation and pairs, |, -, '
        'errors on multi-component graphs, diagnostics, alignments, format, queries); offline join of '
        'the event logs on (case, op); graphs decoded and pickled in a child under another hash seed '
        'and used in the parent (POP identity scenario); `python -m penman` bytes under two hash '
        'seeds; argument-purity snapshots + audit hook on every call in-process. Non-trivial: every '
        'case (>=2 partner records per event).')
ANCHORS = ['penman.layout:configure', 'penman.layout:reconfigure', 'penman.model:Model.errors',
           'penman.transform:reify_edges', 'penman.transform:dereify_edges',
           'penman.transform:reify_attributes', 'penman.transform:indicate_branches',
           'penman.graph:Graph.__or__', 'penman.graph:Graph.__sub__']
PROBES = {'C17': 1, 'C04': 10, 'C03': 10, 'C08': 20, 'C07': 20}
MIN_EVAL = {'quick': 2000, 'thorough': 40000}
REQUIRED_COUNTERS = ['joined_events', 'hashseeds', 'pickled_graphs', 'cli_pairs', 'inprocess_calls']
HASHSEEDS = ['0', '1', '7', '123', 'random']
BATCH = 40


def cases(ctx):
    q = ctx.tier == 'quick'
    nb = 2 if q else 12
    for b in range(nb):
        if not ctx.time_left():
            break
        yield 'batch', {'start': (ctx.shard * 1000 + b) * BATCH, 'count': BATCH}
    yield 'pickle', {'n': 60 if q else 300, 'hashseed': str(3 + ctx.shard)}
    for i in range(10 if q else 60):
        yield 'cli', {'i': i}
    for i in range(150 if q else 2000):
        if not ctx.time_left():
            break
        yield 'inproc', {'i': i}


# ---------------------------------------------------------------- shared case construction

def build_case(seed, i):
    """(g, h, model, rm, vs) deterministic from (seed, i), independent of the hash seed"""
    import penman
    from penman import layout
    from penman.graph import Graph
    from penman.tree import Tree
    from pmon.gen import trees as T, graphs as G, models as M
    rng = random.Random(f'{seed}:C17:case:{i}')
    mname = 'amr' if i % 2 else 'default'
    _, model, rm, _ = M.get(mname)
    roles = [':ARG0', ':ARG1', ':ARG2', ':mod', ':domain', ':op1', ':op2', ':polarity', ':quant',
             ':name', ':time', ':location', ':poss', ':beneficiary', ':accompanier', ':age', ':foo',
             ':consist-of', ':prep-on-behalf-of', ':op10', ':consist', ':prep-on-behalf']
    node = T.rand_tree(rng, rm, roles=roles, p_aln=0.3)
    if i % 4 == 1:
        # (AMR cases) some relations are written twice: directly, and as a collapsible reified
        # node - dereifying then produces a triple the graph already has, markers and all
        node = _reified_twins(random.Random(f'{seed}:C17:twins:{i}'), node, rm, [0])
    g = layout.interpret(Tree(node, metadata={'id': str(i)}), model)
    vs, tr = G.rand_graph(rng, rm, bases=roles)
    # a second, disconnected component so that errors() has several unreachable entries
    if i % 3 == 0:
        for k in range(rng.randrange(1, 4)):
            tr.append((f'u{k}', ':instance', 'island'))
            tr.append((f'u{k}', ':ARG0', f'u{(k + 1) % 3}'))
    rng.shuffle(tr)
    h = Graph(tr, top=vs[0])
    # a second decoded graph over the same variable pool (it shares node names with g, each with its
    # own markers): the union of the two has variables pushed twice
    rng2 = random.Random(f'{seed}:C17:second:{i}')
    node2 = T.rand_tree(rng2, rm, roles=roles, p_aln=0.2, n_nodes=rng2.choice([2, 3, 4]))
    h.decoded_partner = layout.interpret(Tree(node2), model)
    # ... and one read from a text that defines variables twice (two valid node contexts per variable)
    dup = T.mangle(rng2, T.rand_tree(rng2, rm, roles=roles, p_aln=0.0, n_nodes=rng2.choice([3, 4, 5])), rm, special_inverse=False)
    try:
        h.dup_partner = layout.interpret(Tree(dup), model)
    except Exception:
        h.dup_partner = h.decoded_partner
    return g, h, model, rm, vs, mname


def _reified_twins(rng, node, rm, counter):
    from pmon.ref import interp
    v, br = node
    out = []
    for r, t in br:
        if isinstance(t, tuple):
            t = _reified_twins(rng, t, rm, counter)
        out.append((r, t))
        base = r.partition('~')[0]
        fr = rm.first_reification(base) if r != '/' else None
        if fr and rm.unambiguous(base) and not rm.inverted(base) and t is not None and rng.random() < 0.5:
            concept, sr, tr = fr
            counter[0] += 1
            tv = t[0] if isinstance(t, tuple) else interp.split_atom(t)[0]
            out.append((sr + '-of', (f'rt{counter[0]}', [('/', concept + rng.choice(['', '~3'])), (tr, tv)])))
    return (v, out)


def operations(g, h, model, vs):
    import penman
    from penman import layout, transform, surface
    from penman.graph import Graph
    return {
        'encode_g_every_top': lambda: [penman.encode(g, top=v, model=model) for v in sorted(g.variables())],
        'encode_h_every_top': lambda: [_try(lambda: penman.encode(h, top=v, model=model)) for v in vs],
        'configure_g': lambda: layout.configure(g, model=model),
        'reify_edges': lambda: transform.reify_edges(g, model),
        'dereify(reify)': lambda: transform.dereify_edges(transform.reify_edges(g, model), model),
        'dereify_edges': lambda: transform.dereify_edges(g, model),
        # union of two decoded graphs, then written out (the union's marker table is filled in set order)
        'encode(g|g2)': lambda: _try(lambda: penman.encode(g | h.decoded_partner, model=model)),
        'node_contexts(g2|g)': lambda: layout.node_contexts(h.decoded_partner | g),
        'encode(empty|dup)': lambda: _try(lambda: penman.encode(Graph() | h.dup_partner, model=model)),
        'encode(g|dup)': lambda: _try(lambda: penman.encode(g | h.dup_partner, model=model)),
        # the calls that do not take a graph: text <-> tree, triple conjunctions, constants, the lexer
        'format(parse(text))': lambda: penman.format(penman.parse(penman.encode(g, model=model)), indent=None),
        'iterparse(two graphs)': lambda: [t.node for t in penman.iterparse(penman.encode(g, model=model) + '\n\n'
                                                                             + penman.encode(g, model=model, indent=None))],
        'parse_triples(format_triples)': lambda: penman.parse_triples(penman.format_triples(
            [('first', ':of', 'all')] + [t for t in g.triples if t[2] is not None and t[1] != ':'
                                         and not any(c in str(t[0]) + str(t[1]) + str(t[2]) for c in '(),^ #')][:12])),
        'constants': lambda: [(repr(_constant().evaluate(a)), _constant().type(a).name, _constant().quote(a))
                              for a in ('true', 'false', 'null', '12', '-1.5', '"s t"', 'x', '', '1e3')],
        'lex(triple pattern)': lambda: [(t.type, t.text, t.lineno, t.offset) for t in _lex_triple('a:b /c ~1 r(a, "b ^ c") ^s(c,d)')],
        'top_setter_refusal': lambda: _refused_top(h),
        # a refused model operation leaves the model as it was
        'model_refuses_dereify': lambda: _model_refusal(model),
        'model_state': lambda: _model_state(model),
        'reify_attributes_h': lambda: transform.reify_attributes(h),
        'reify_attributes(reify_edges)': lambda: transform.reify_attributes(transform.reify_edges(g, model)),
        'indicate_branches': lambda: transform.indicate_branches(g, model),
        'errors_h': lambda: list(model.errors(h).items()),
        'errors_g': lambda: list(model.errors(g).items()),
        'g|h': lambda: g | h,
        'g-h': lambda: g - h,
        'h|g': lambda: h | g,
        'reconfigure_canonical': lambda: _try(lambda: layout.reconfigure(h, model=model, key=model.canonical_order)),
        'reconfigure_alnum_g': lambda: layout.reconfigure(g, model=model, key=model.alphanumeric_order),
        'alignments': lambda: sorted(map(repr, surface.alignments(g).items())),
        'role_alignments': lambda: sorted(map(repr, surface.role_alignments(g).items())),
        'node_contexts': lambda: layout.node_contexts(g),
        'appears_inverted': lambda: [layout.appears_inverted(g, t) for t in g.triples],
        'reentrancies_h': lambda: sorted(h.reentrancies().items(), key=repr),
        'variables_h': lambda: h.variables(),
        'edges_attrs_h': lambda: (h.edges(), h.attributes(), h.instances()),
        'format_compact': lambda: penman.format(layout.configure(g, model=model), indent=None, compact=True),
        'format_triples': lambda: penman.format_triples(g.triples),
        # a Tree built without metadata, annotated in place, must not influence any other call
        'annotate_default_tree': lambda: _annotate(layout.configure(g, model=model).node),
        'format_node_tuple': lambda: penman.format(layout.configure(Graph(list(g.triples), top=g.top), model=model).node),
        'interpret_default_tree': lambda: layout.interpret(penman.Tree(layout.configure(g, model=model).node), model),
        'canonicalize_roles': lambda: transform.canonicalize_roles(layout.configure(g, model=model), model),
    }


def _constant():
    from penman import constant
    return constant


def _lex_triple(text):
    from penman import _lexer
    pat = getattr(_lexer, 'TRIPLE_RE', None)
    return list(_lexer.lex(text, pattern=pat)) if pat is not None else []


def _refused_top(h):
    import copy
    from penman.exceptions import GraphError
    g2 = copy.deepcopy(h)
    try:
        g2.top = 'no-such-variable'
        return ('accepted', g2.top)
    except GraphError:
        return ('refused', g2.top)


def _model_state(model):
    return (sorted(map(repr, model.roles)), sorted(map(repr, model.normalizations.items())),
            sorted((k, repr(v)) for k, v in model.reifications.items() if v),
            sorted((k, repr(v)) for k, v in model.dereifications.items() if v),
            sorted(k for k in model.reifications), sorted(k for k in model.dereifications),
            [model.is_concept_dereifiable(c) for c in ('no-such-concept-91', 'have-mod-91', 'alpha')],
            [model.is_role_reifiable(r) for r in (':no-such-role', ':mod', ':ARG0')])


def _model_refusal(model):
    from penman.exceptions import ModelError
    out = []
    for f in (lambda: model.dereify(('x', ':instance', 'no-such-concept-91'), ('x', ':ARG1', 'a'), ('x', ':ARG2', 'b')),
              lambda: model.reify(('a', ':no-such-role', 'b')),
              lambda: model.dereify(('x', ':instance', 'alpha'), ('x', ':ARG1', 'a'), ('x', ':ARG2', 'b'))):
        try:
            out.append(repr(f()))
        except ModelError as e:
            out.append('ModelError')
    return out + [_model_state(model)]


def _annotate(node):
    import penman
    t = penman.Tree(node)
    t.metadata['note'] = 'annotated in place'
    return penman.format(t)


def _try(f):
    from penman.exceptions import LayoutError
    try:
        return f()
    except LayoutError as e:
        return 'LayoutError'


def dig(x):
    from pmon import canon
    return hashlib.sha1(repr(canon.canon(x)).encode('utf-8', 'surrogatepass')).hexdigest()[:16]


# ---------------------------------------------------------------- worker

def worker(argv):
    import logging
    logging.disable(logging.CRITICAL)
    import penman
    from pmon import core as _core
    assert penman.__file__.startswith(_core.REPO + '/')
    from pmon import canon
    seed, start, count, mode = int(argv[0]), int(argv[1]), int(argv[2]), argv[3]
    out = sys.stdout
    order = range(start, start + count)
    if mode == 'reverse':
        order = reversed(order)     # other interleaving of models and graphs in the same process
    for i in order:
        g, h, model, rm, vs, mname = build_case(seed, i)
        ops = operations(g, h, model, vs)
        names = list(ops)
        if mode == 'shuffle':
            random.Random(f'{seed}:shuffle:{i}').shuffle(names)
        for name in names:
            sg, sh = canon.canon(g), canon.canon(h)
            try:
                r = dig(ops[name]())
            except Exception as e:
                r = 'EXC:' + type(e).__name__
            pure = canon.canon(g) == sg and canon.canon(h) == sh
            out.write(json.dumps({'case': i, 'op': name, 'digest': r, 'pure': pure}) + '\n')
    out.write(json.dumps({'done': True}) + '\n')


def pickle_child(argv):
    import logging
    logging.disable(logging.CRITICAL)
    import penman
    from penman import layout
    seed, n = int(argv[0]), int(argv[1])
    out = []
    for i in range(n):
        g, h, model, rm, vs, mname = build_case(seed, 100000 + i)
        out.append((g, mname, penman.encode(g, model=model), layout.node_contexts(g)))
    sys.stdout.buffer.write(pickle.dumps(out))


# ---------------------------------------------------------------- oracle

def _env(hashseed):
    env = dict(os.environ)
    env['PYTHONHASHSEED'] = hashseed
    env['PYTHONDONTWRITEBYTECODE'] = '1'
    return env


def oracle(ctx, kind, p):
    from pmon import core
    if kind == 'batch':
        outdir = os.path.join(core.OUT, 'C17', ctx.tier, f'logs-{ctx.shard}')
        os.makedirs(outdir, exist_ok=True)
        # ... and one interpreter started with PYTHONOPTIMIZE=1 (assert statements compiled away): the
        # mode of the interpreter is not an argument of any call
        runs = [(hs, 'inorder') for hs in HASHSEEDS] + [('0', 'shuffle'), ('0', 'reverse'), ('1', 'optimized')]
        procs = []
        for hs, mode in runs:
            path = os.path.join(outdir, f'b{p["start"]}-hs{hs}-{mode}.jsonl')
            fh = open(path, 'w')
            env = _env(hs)
            if mode == 'optimized':
                env['PYTHONOPTIMIZE'] = '1'
            pr = subprocess.Popen([sys.executable, '-B', '-m', 'pmon.checks.C17', 'worker', str(ctx.seed),
                                   str(p['start']), str(p['count']), mode],
                                  stdout=fh, stderr=subprocess.PIPE, env=env, cwd=core.ROOT)
            procs.append((hs, mode, path, fh, pr))
        logs = {}
        for hs, mode, path, fh, pr in procs:
            try:
                _, err = pr.communicate(timeout=600)
            except subprocess.TimeoutExpired:
                pr.kill()
                ctx.inconclusive_because(f'C17 worker hashseed={hs} timed out')
                continue
            finally:
                fh.close()
            if pr.returncode != 0:
                ctx.fail('worker-crashed', mech=f'{mode}', detail={'hashseed': hs, 'stderr': err.decode('utf-8', 'replace')[-800:]})
                continue
            recs = {}
            done = False
            with open(path) as f:
                for line in f:
                    d = json.loads(line)
                    if d.get('done'):
                        done = True
                        continue
                    recs[(d['case'], d['op'])] = d
            if not done:
                ctx.inconclusive_because(f'C17 worker hashseed={hs} log incomplete')
            logs[(hs, mode)] = recs
            ctx.count('hashseeds')
        # offline join
        keys = set()
        for recs in logs.values():
            keys.update(recs)
        for key in sorted(keys):
            ds = {}
            for run, recs in logs.items():
                r = recs.get(key)
                if r is None:
                    ctx.inconclusive_because(f'missing partner record {key} in run {run}')
                    continue
                ds.setdefault(r['digest'], []).append(run)
                if not r['pure']:
                    ctx.fail('purity:argument-mutated(worker)', mech=key[1], detail={'case': key[0], 'op': key[1], 'run': run},
                             payload=['batch', {'start': key[0], 'count': 1}])
            ctx.count('joined_events')
            ctx.evaluations += 1
            if len(ds) > 1:
                ctx.fail('nondeterministic-result', mech=key[1],
                         detail={'case': key[0], 'op': key[1], 'digests': {k: [list(x) for x in v] for k, v in ds.items()}},
                         payload=['batch', {'start': key[0], 'count': 1}])
            if any(d.startswith('EXC:') for d in ds):
                ctx.fail('operation-raised', mech=key[1] + ':' + sorted(ds)[0],
                         detail={'case': key[0], 'op': key[1], 'digests': sorted(ds)},
                         payload=['batch', {'start': key[0], 'count': 1}])
        ctx.case(('batch', p['start'], ctx.seed), True)
        if ctx.want_sample():
            k0 = sorted(keys)[:3]
            ctx.sample({'events': [{'case': k[0], 'op': k[1], 'digest': logs[('0', 'inorder')].get(k, {}).get('digest'),
                                    'runs_agreeing': len(logs)} for k in k0]})
    elif kind == 'pickle':
        import penman
        from penman import layout, transform
        from pmon.gen import models as M
        r = subprocess.run([sys.executable, '-B', '-m', 'pmon.checks.C17', 'pickle', str(ctx.seed), str(p['n'])],
                           capture_output=True, env=_env(p['hashseed']), cwd=core.ROOT, timeout=600)
        if r.returncode != 0:
            ctx.fail('pickle-child-crashed', detail={'stderr': r.stderr.decode('utf-8', 'replace')[-800:]})
            return
        data = pickle.loads(r.stdout)
        for idx, (g, mname, s, nc) in enumerate(data):
            model = M.get(mname)[1]
            ctx.count('pickled_graphs')
            ok, s2 = ctx.call(penman.encode, g, model=model, clause='encode(pickled)')
            if ok and s2 != s:
                ctx.fail('pickled-graph:encode-differs', detail={'child': s[:300], 'parent': s2[:300]})
            ok, nc2 = ctx.call(layout.node_contexts, g, clause='node_contexts(pickled)')
            if ok and nc2 != nc:
                ctx.fail('pickled-graph:node_contexts-differ', detail={'child': nc, 'parent': nc2, 'text': s[:300]})
            ok, a = ctx.call(lambda: penman.encode(transform.reify_attributes(g), model=model), clause='reify_attributes(pickled)')
            ok2, b = ctx.call(lambda: penman.encode(transform.reify_attributes(penman.decode(s, model=model)), model=model),
                              clause='reify_attributes(local)')
            if ok and ok2 and a != b:
                ctx.fail('pickled-graph:transform-differs', detail={'pickled': a[:300], 'local': b[:300]})
            ctx.case(('pickle', idx, s), True)
    elif kind == 'cli':
        import penman
        rng = ctx.rng('cli', p['i'])
        texts = []
        for j in range(3):
            g, h, model, rm, vs, mname = build_case(ctx.seed, 200000 + p['i'] * 3 + j)
            texts.append(penman.encode(g, model=M_amr()))
        text = '\n\n'.join(texts) + '\n'
        opts = rng.choice([['--amr', '--reify-edges', '--reify-attributes'],
                           ['--amr', '--check', '--canonicalize-roles'],
                           ['--amr', '--reconfigure=canonical', '--rearrange=canonical,attributes-first'],
                           ['--amr', '--dereify-edges', '--indicate-branches', '--make-variables={prefix}{j}'],
                           ['--triples'], ['--amr', '--check', '--rearrange=alphanumeric', '--indent=3', '--compact'],
                           ['--rearrange=alphanumeric,inverted-last'], ['--amr', '--rearrange=inverted-last,alphanumeric'],
                           ['--amr', '--rearrange=canonical,alphanumeric,attributes-first'],
                           ['--reconfigure=canonical', '--rearrange=inverted-last,canonical']])
        outs = []
        for hs in ('0', '2', '4242'):
            r = subprocess.run([sys.executable, '-m', 'penman'] + opts, input=text.encode('utf-8'),
                               capture_output=True, env=dict(_env(hs), PYTHONPATH=core.REPO, PYTHONIOENCODING='utf-8'),
                               cwd='/', timeout=300)
            outs.append((r.returncode, r.stdout))
        ctx.count('cli_pairs')
        ctx.case(('cli', opts, text), True)
        if any(o != outs[0] for o in outs[1:]):
            ctx.fail('cli:bytes-differ-across-hash-seeds', mech=' '.join(opts)[:40],
                     detail={'options': opts, 'input': text[:300], 'a': outs[0][1][:300].decode('utf-8', 'replace'),
                             'b': outs[1][1][:300].decode('utf-8', 'replace')})
    elif kind == 'inproc':
        # the same operations in this process, with the always-on purity law at rate 1,
        # twice: the second call must give the same digest (repeatability)
        g, h, model, rm, vs, mname = build_case(ctx.seed, 300000 + ctx.shard * 100000 + p['i'])
        ops = operations(g, h, model, vs)
        for name, f in ops.items():
            ctx.current = ['inproc', p]
            ok, a = ctx.call(f, clause='op:' + name)
            ok2, b = ctx.call(f, clause='op:' + name)
            ctx.count('inprocess_calls', 2)
            if ok and ok2 and dig(a) != dig(b):
                ctx.fail('repeated-call-differs', mech=name, detail={'op': name, 'case': p['i']})
        ctx.evaluations += len(ops) - 1
        ctx.case(('inproc', p['i'], ctx.seed, ctx.shard), True)


def M_amr():
    from pmon.gen import models as M
    return M.get('amr')[1]


if __name__ == '__main__':
    if sys.argv[1] == 'worker':
        worker(sys.argv[2:])
    elif sys.argv[1] == 'pickle':
        pickle_child(sys.argv[2:])
