"""Interpreter-level monitors (sys.monitoring, audit hook, watchdog).

* step budget: counts executed source lines of code under /repo/penman inside
  a ``with step_budget(limit)`` block and raises StepBudget from the callback
  when the limit is exceeded (a logical clock: machine load cannot trip it);
* coverage: which functions of penman were entered (call counts) and which of
  their lines ran at least once (LINE events that DISABLE themselves after the
  first hit, so the cost is paid once per line);
* audit hook: records side-effect events while a "pure" call is in progress;
* watchdog: faulthandler.dump_traceback_later(exit=True).

Everything keyed on private names only annotates evidence (DESIGN 2.7).
"""
import faulthandler
import os
import sys
from contextlib import contextmanager

REPO = os.environ.get('PMON_REPO', '/repo').rstrip('/')
REPO_PREFIX = REPO + '/penman'
mon = sys.monitoring
E = mon.events

COV_TOOL = 3      # line/func coverage
STEP_TOOL = 4     # step budget


class StepBudget(BaseException):
    """Raised inside the code under test when the step budget is exhausted.

    Derives from BaseException so that no ``except Exception`` in the code
    under test can swallow it."""


# ---------------------------------------------------------------- coverage

func_calls = {}      # (file, qualname) -> count
lines_hit = {}       # file -> set(lineno)
_code_objs = {}      # (file, qualname) -> code object (for line totals)
_cov_on = False


def _is_repo(code):
    return code.co_filename.startswith(REPO_PREFIX)


def _cov_start(code, offset):
    if not _is_repo(code):
        return mon.DISABLE
    k = (code.co_filename, code.co_qualname)
    func_calls[k] = func_calls.get(k, 0) + 1
    if k not in _code_objs:
        _code_objs[k] = code


def _cov_line(code, lineno):
    if _is_repo(code):
        lines_hit.setdefault(code.co_filename, set()).add(lineno)
    return mon.DISABLE


def coverage_on():
    global _cov_on
    if _cov_on:
        return
    try:
        mon.use_tool_id(COV_TOOL, 'pmon-cov')
    except ValueError:
        return
    mon.register_callback(COV_TOOL, E.PY_START, _cov_start)
    mon.register_callback(COV_TOOL, E.LINE, _cov_line)
    mon.set_events(COV_TOOL, E.PY_START | E.LINE)
    _cov_on = True


def coverage_report(anchors):
    """anchors: list of 'module.path:qualname' -> dict for the evidence."""
    out = {}
    for a in anchors:
        modname, _, qual = a.partition(':')
        fname = REPO + '/' + modname.replace('.', '/') + '.py'
        k = (fname, qual)
        code = _code_objs.get(k)
        if code is None:
            exists = _anchor_exists(modname, qual)
            out[a] = {'calls': 0, 'status': 'never-entered' if exists else 'unknown-anchor'}
            continue
        own = {ln for _, _, ln in code.co_lines() if ln is not None and ln != code.co_firstlineno}
        hit = lines_hit.get(fname, set()) & own
        out[a] = {'calls': func_calls.get(k, 0), 'lines_hit': len(hit), 'lines': len(own)}
    return out


def _anchor_exists(modname, qual):
    try:
        import importlib
        obj = importlib.import_module(modname)
        for part in qual.split('.'):
            obj = getattr(obj, part)
        return True
    except Exception:
        return False


# ---------------------------------------------------------------- step budget

_steps = 0
_limit = None
_step_ready = False
max_ratio = 0.0     # max steps/limit seen (evidence)


def _step_line(code, lineno):
    global _steps
    if not _is_repo(code):
        return mon.DISABLE
    _steps += 1
    if _limit is not None and _steps > _limit:
        raise StepBudget(f'{_steps} lines > budget {_limit} at {code.co_filename}:{lineno}')


def _step_setup():
    global _step_ready
    if _step_ready:
        return True
    try:
        mon.use_tool_id(STEP_TOOL, 'pmon-steps')
    except ValueError:
        return False
    mon.register_callback(STEP_TOOL, E.LINE, _step_line)
    _step_ready = True
    return True


def B(n):
    """Budget in interpreted penman lines for an argument of size n."""
    return 20000 + 50 * (n + 2) ** 3


@contextmanager
def step_budget(limit):
    """Count penman source lines executed in the block; raise StepBudget
    beyond *limit*.  Yields a dict that receives 'steps' on exit."""
    global _steps, _limit, max_ratio
    info = {'steps': 0, 'limit': limit}
    if not _step_setup():
        yield info
        return
    _steps, _limit = 0, limit
    mon.set_events(STEP_TOOL, E.LINE)
    try:
        yield info
    finally:
        mon.set_events(STEP_TOOL, 0)
        _limit = None
        info['steps'] = _steps
        if limit:
            max_ratio = max(max_ratio, min(_steps, limit + 1) / limit)


# ---------------------------------------------------------------- depth

def stack_depth():
    f = sys._getframe()
    n = 0
    while f is not None:
        n += 1
        f = f.f_back
    return n


# ---------------------------------------------------------------- audit hook

_audit_installed = False
_pure_depth = 0
_allow_open = 0
audit_events = []      # (event, args-repr) recorded inside pure calls
audit_seen = 0         # number of audit callbacks that ran inside pure calls (any event)

_WATCH_PREFIX = ('os.', 'socket.', 'subprocess.', 'shutil.', 'urllib.', 'ctypes.')
_WATCH_EXACT = {'open', 'exec', 'compile', 'import'}


def _audit(event, args):
    global audit_seen
    if _pure_depth <= 0:
        return
    audit_seen += 1
    if event in _WATCH_EXACT or event.startswith(_WATCH_PREFIX):
        if event == 'open' and _allow_open:
            return
        if event == 'import':
            # importing an already-loaded module is not a side effect we care about
            name = args[0] if args else None
            if name in sys.modules:
                return
        if event in ('compile', 'exec'):
            # re.compile with a cold cache does not raise audit events; real
            # exec/compile inside a pure call would
            pass
        if len(audit_events) < 50:
            audit_events.append((event, repr(args)[:200]))


def audit_on():
    global _audit_installed
    if not _audit_installed:
        sys.addaudithook(_audit)
        _audit_installed = True


@contextmanager
def pure_region(allow_open=False):
    global _pure_depth, _allow_open
    _pure_depth += 1
    if allow_open:
        _allow_open += 1
    try:
        yield
    finally:
        _pure_depth -= 1
        if allow_open:
            _allow_open -= 1


# ---------------------------------------------------------------- watchdog

def watchdog(seconds, file=None):
    faulthandler.enable()
    faulthandler.dump_traceback_later(seconds, exit=True, file=file or sys.stderr)


def watchdog_off():
    faulthandler.cancel_dump_traceback_later()
