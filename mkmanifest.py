#!/usr/bin/env python3
"""Regenerate MANIFEST.json from the check modules present under pmon/checks."""
import json
import os
import re
import subprocess

ROOT = os.path.dirname(os.path.abspath(__file__))
props = [json.loads(l) for l in open(os.path.join(ROOT, 'properties.jsonl')) if l.strip()]

TECH = {
    'C01': 'round-trip and token-sequence oracles over real format/parse executions (generated + enumerated trees x 16 option sets)',
    'C02': 'tree-equality oracle on interpret/configure executions (bounded-exhaustive + random well-formed trees x models)',
    'C03': 'content-conservation oracle on encode/decode executions (exhaustive small graphs x permutations x tops, random larger)',
    'C04': 'reference-model monitor: independent interpretation compared on every interpret() call',
    'C05': 'content/sortedness/stability oracles on reconfigure/rearrange executions',
    'C06': 'fault injection into layout markers + reference connectivity rule + sys.monitoring step budget',
    'C07': 'reference recogniser compared on every parse execution; bounded-exhaustive strings/token sequences; step budget',
    'C08': 'tiling invariant + reference lexer compared on every lex() execution',
    'C09': 'offline equivalence check over recorded decode results per container/framing',
    'C10': 'structural relabelling laws + reference map on reset_variables executions; step budget',
    'C11': 'inverse-law oracle on reify/dereify executions (in-memory and piped)',
    'C12': 'well-formedness/faithfulness oracles on transform programs over decoded, hand-built and edited graphs',
    'C13': 'role-algebra contracts on Model methods over enumerated roles x model zoo',
    'C14': 'generator-known layout facts compared with node_contexts/appears_inverted/get_pushed_variable',
    'C15': 'sequential reference model of Graph checked step by step over operation histories; icontract class invariant',
    'C16': 'reference error report compared on Model.errors executions; CLI exit-status oracle on real processes',
    'C17': 'always-on argument-purity snapshots + audit hook + offline determinism join across hash seeds/processes',
    'C18': 'quote/evaluate/type laws checked on enumerated and random constants with real and reference lexer',
    'C19': 'round-trip oracle on format_triples/parse_triples executions + spacing variants',
    'C20': 'reference pipeline compared with real CLI executions (in-process and subprocess); idempotence replay',
}

have = sorted(f[:-3] for f in os.listdir(os.path.join(ROOT, 'pmon', 'checks')) if re.fullmatch(r'C\d+\.py', f))
try:
    commits = subprocess.run(['git', '-C', '/repo', 'log', '--format=%h %s', 'd36cdd6..HEAD'],
                             capture_output=True, text=True).stdout.strip().splitlines()
except Exception:
    commits = []
hook_commits = [c.split()[0] for c in commits if not c.split(' ', 1)[1].startswith('fix:')]

checks = []
na = []
for p in props:
    pid = p['id']
    if pid in have:
        checks.append({
            'property_id': pid,
            'quick_cmd': f'./check {pid} --tier quick',
            'thorough_cmd': f'./check {pid} --tier thorough',
            'evidence_file': f'evidence/{pid}.json',
            'replay_cmd_template': f'./check {pid} --replay {{path}}',
            'engine': 'pmon',
            'level_claimed': {
                'category': 'exploration',
                'text': ('Held on the executions listed in the evidence file: the real penman code is run under a '
                         'generated hostile workload while an oracle attached at the public API decides every '
                         'execution; bounded-exhaustive sub-spaces are complete only up to their stated bound. '
                         'Runtime monitoring cannot give more than this for a property quantified over all inputs.'),
                'design_ref': f'DESIGN.md section 4, {pid}',
            },
            'level_note': ('Trusted: the reference models under pmon/ref (written from docs/*.rst), the generators, '
                           'CPython 3.12 of /venv. No in-repository hooks.'),
            'technique': 'runtime monitoring: ' + TECH[pid],
        })
    else:
        na.append({'property_id': pid, 'reason': 'check not built yet in this session (planned, see DESIGN.md section 4)'})

manifest = {
    'version': 1,
    'setup_cmd': './setup.sh',
    'hooks': {
        'guard': 'PENMAN_VERIF',
        'enable': 'none needed: all instrumentation is attached from outside (pmon/probe.py monkeypatches the public API, sys.monitoring, sys.addaudithook); PENMAN_VERIF is reserved and unused',
        'baseline_off_cmd': 'cd /repo && /venv/bin/python -m pytest -ra -q -p no:cacheprovider --timeout=900 --continue-on-collection-errors',
        'source_commits': hook_commits,
        'add_only': True,
    },
    'engines': [{
        'name': 'pmon',
        'path': 'pmon/',
        'serves_properties': have,
        'kind_free_text': 'runtime monitors: API-boundary probes, reference-model oracles, sys.monitoring step budget/coverage, audit hook, offline log checkers',
    }],
    'checks': checks,
    'not_applicable': na,
    'notes': ('Exit 0 held / 1 VIOLATION / 2 INCONCLUSIVE. Known findings in known_findings.json. '
              'Repository changes are fix: commits only (see known_findings.json "lines"). '
              'Every run spawns shard interpreters; the last shard(s) run with PYTHONOPTIMIZE=1 and '
              'PYTHONINTMAXSTRDIGITS=0 (the interpreter mode is not an input of any property).'),
}
with open(os.path.join(ROOT, 'MANIFEST.json'), 'w') as fh:
    json.dump(manifest, fh, indent=1)
print('checks:', have, 'not_applicable:', [x['property_id'] for x in na])
