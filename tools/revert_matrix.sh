#!/bin/bash
# Detection matrix: revert each fix: commit of /repo in the working tree (never committed),
# run all quick checks without touching evidence, restore.  usage: tools/revert_matrix.sh [out-file]
out=${1:-/verif/out/revert_matrix.txt}
mkdir -p /verif/out; : > "$out"
cd /repo || exit 1
[ -z "$(git status --short)" ] || { echo "/repo not clean"; exit 1; }
for h in $(git log --reverse --format=%h d36cdd6..HEAD); do
  subj=$(git log -1 --format=%s $h)
  case "$subj" in fix:*) ;; *) continue;; esac
  git show $h | git apply -R || { echo "cannot revert $h" | tee -a "$out"; continue; }
  echo "=== $h $subj" | tee -a "$out"
  (cd /verif && tools/run_all.py --jobs 7 --no-evidence 2>&1 | grep -v "rc=0" ) | tee -a "$out"
  git checkout -- .
done
echo "=== baseline" | tee -a "$out"
(cd /verif && tools/run_all.py --jobs 7 --no-evidence 2>&1 | grep -v "rc=0") | tee -a "$out"
