#!/usr/bin/env python3
"""Render refactorings/MATRIX.json + refactorings/*/meta.json as refactorings/REFACTORINGS.md"""
import json
import os

ROOT = os.path.dirname(os.path.dirname(os.path.abspath(__file__)))
R = os.path.join(ROOT, 'refactorings')
m = json.load(open(os.path.join(R, 'MATRIX.json')))
ids = sorted(d for d in os.listdir(R) if os.path.isfile(os.path.join(R, d, 'patch.diff')))
rows = ['| refactoring | what it changes | pinned tests | checks raising an alarm (quick tier, all 20 run) |', '|---|---|---|---|']
quiet = 0


def cell(x, n=420):
    return ' '.join(str(x).replace('|', '\\|').split())[:n]


for rid in ids:
    try:
        meta = json.load(open(os.path.join(R, rid, 'meta.json')))
    except Exception:
        meta = {}
    res = m.get(rid, {})
    alarms = sorted(c for c, r in res.items() if not c.startswith('_') and r.get('rc'))
    if not alarms and res:
        quiet += 1
    rows.append(f"| {rid} | {cell(meta.get('summary') or meta.get('what') or '')} | {res.get('_tests', res.get('_apply', 'not run'))} | "
                f"{', '.join(alarms) if alarms else ('none' if res else 'not run')} |")
open(os.path.join(R, 'REFACTORINGS.md'), 'w').write(
    '# Behaviour-preserving refactorings x checks (false-alarm test)\n\n'
    'Each refactoring was written by a fresh sub-agent given only the library and the requirement that no observable '
    'behaviour may change (they differential-tested their patches against the original on thousands of random inputs). '
    'Batch 1 (`-r1`, `-r2`): renamed and split helpers, other internal data structures. Batch 2 (`-p1`, `-p2`): performance '
    'work and modernisation (memoisation, hand-written copies instead of deepcopy, match statements). Batch 3 (`-s1`, `-s2`): '
    'rewritten algorithms (recursion <-> explicit stacks, regular expressions <-> hand-written scanners, one pass <-> two). '
    '`tools/refactor_matrix.py` applies each patch in a scratch worktree and runs all twenty quick checks; any exit status '
    'other than 0 would be a false alarm.\n\n'
    f'{len(ids)} refactorings, {quiet} without any alarm.\n\n' + '\n'.join(rows) + '\n')
print(len(ids), 'refactorings;', quiet, 'quiet')
