#!/bin/bash
# Run every quick check against each seeded change: apply to /repo's working tree (never
# committed), run, undo straight afterwards.  usage: tools/seeded_matrix.sh [ids...]
out=/verif/out/seeded_matrix.txt
mkdir -p /verif/out
cd /repo || exit 1
[ -z "$(git status --short)" ] || { echo "/repo not clean"; exit 1; }
ids=${@:-$(ls /verif/seeded)}
for id in $ids; do
  p=/verif/seeded/$id/patch.diff
  [ -f "$p" ] || continue
  git apply "$p" || { echo "=== $id: patch does not apply" | tee -a "$out"; continue; }
  echo "=== $id ($(python3 -c "import json;print(json.load(open('/verif/seeded/$id/meta.json'))['property'])"))" | tee -a "$out"
  (cd /verif && tools/run_all.py --jobs 7 --no-evidence 2>&1 | grep -v "rc=0") | tee -a "$out"
  git checkout -- .
done
