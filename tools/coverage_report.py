#!/usr/bin/env python3
"""Which lines of /repo/penman did the workloads of the last runs execute?  Reads the shard
results under out/<ID>/<tier>/ and prints, per file, the executable lines never hit by any check
(evidence of reach; it never influences a verdict).  usage: tools/coverage_report.py [tier]"""
import glob
import json
import os
import sys

ROOT = os.path.dirname(os.path.dirname(os.path.abspath(__file__)))
tier = sys.argv[1] if len(sys.argv) > 1 else 'quick'
hit = {}
by_check = {}
for path in glob.glob(os.path.join(ROOT, 'out', 'C*', tier, 'shard-*.json')):
    cid = path.split(os.sep)[-3]
    try:
        r = json.load(open(path))
    except Exception:
        continue
    for f, lines in r.get('lines_hit', {}).items():
        hit.setdefault(f, set()).update(lines)
        by_check.setdefault(f, {}).setdefault(cid, set()).update(lines)


def executable_lines(path):
    """lines of function bodies (module- and class-level statements run at import time, before
    the monitor is attached, and are not counted)"""
    src = open(path).read()
    code = compile(src, path, 'exec')
    out = set()
    stack = [(code, False)]
    while stack:
        c, is_func = stack.pop()
        if is_func:
            for _, _, ln in c.co_lines():
                if ln is not None and ln != c.co_firstlineno:
                    out.add(ln)
        for k in c.co_consts:
            if hasattr(k, 'co_lines'):
                # a class body is a code object too: its name is not a function but its methods are
                stack.append((k, not (k.co_name[:1].isupper() and k.co_flags & 0x2 == 0) or k.co_name.startswith('<')))
    return out


tot = tot_hit = 0
for f in sorted(hit):
    p = os.path.join('/repo', f)
    if not os.path.exists(p):
        continue
    ex = executable_lines(p)
    h = hit[f] & ex
    missed = sorted(ex - h)
    tot += len(ex)
    tot_hit += len(h)
    print(f'{f}: {len(h)}/{len(ex)} executable lines hit; never hit: {missed}')
print(f'TOTAL {tot_hit}/{tot}')
