#!/usr/bin/env python3
"""Detection matrix for the repairs: each `fix:` commit of /repo is reverted alone in a scratch
worktree (never in /repo) and the quick checks run against it (PMON_REPO/PMON_OUT).
usage: tools/revert_matrix.py [--par N] [--jobs N] [--all-checks] [commit ...]
Writes out/revert_matrix.json; prints one line per commit."""
import argparse
import concurrent.futures as cf
import json
import os
import re
import shutil
import subprocess
import tempfile

ROOT = os.path.dirname(os.path.dirname(os.path.abspath(__file__)))
CHECKS = sorted(f[:-3] for f in os.listdir(os.path.join(ROOT, 'pmon', 'checks')) if re.fullmatch(r'C\d+\.py', f))


def one(commit, checks, jobs):
    wt = tempfile.mkdtemp(prefix=f'revwt-{commit}-', dir='/tmp')
    os.rmdir(wt)
    out = tempfile.mkdtemp(prefix=f'revout-{commit}-', dir='/tmp')
    res = {}
    try:
        subprocess.run(['git', '-C', '/repo', 'worktree', 'add', '-q', '--detach', wt, 'HEAD'], check=True)
        diff = subprocess.run(['git', '-C', '/repo', 'show', '--format=', commit], capture_output=True, text=True).stdout
        a = subprocess.run(['git', '-C', wt, 'apply', '-R', '-3'], input=diff, capture_output=True, text=True)
        if a.returncode:
            return commit, {'_revert': a.stderr[-300:]}
        env = dict(os.environ, PMON_REPO=wt, PMON_OUT=out)

        def run(c):
            r = subprocess.run([os.path.join(ROOT, 'check'), c, '--tier', 'quick', '--no-evidence'],
                               capture_output=True, text=True, env=env, cwd=ROOT)
            clauses = sorted(set(re.findall(r'^  clause=(\S+)', r.stdout, flags=re.M)))[:4]
            return c, r.returncode, clauses
        with cf.ThreadPoolExecutor(jobs) as ex:
            for c, rc, clauses in ex.map(run, checks):
                res[c] = {'rc': rc, 'clauses': clauses}
    finally:
        subprocess.run(['git', '-C', '/repo', 'worktree', 'remove', '--force', wt], capture_output=True)
        shutil.rmtree(wt, ignore_errors=True)
        shutil.rmtree(out, ignore_errors=True)
    return commit, res


def main():
    ap = argparse.ArgumentParser()
    ap.add_argument('commits', nargs='*')
    ap.add_argument('--par', type=int, default=3)
    ap.add_argument('--jobs', type=int, default=2)
    ap.add_argument('--all-checks', action='store_true')
    a = ap.parse_args()
    kf = json.load(open(os.path.join(ROOT, 'known_findings.json')))
    fixed = [(f['commit'], f['property'], f['id']) for f in kf['findings'] if f['status'] == 'fixed']
    if a.commits:
        fixed = [x for x in fixed if x[0] in a.commits]
    path = os.path.join(ROOT, 'out', 'revert_matrix.json')
    try:
        matrix = json.load(open(path))
    except Exception:
        matrix = {}
    bad = 0
    with cf.ThreadPoolExecutor(a.par) as ex:
        futs = {ex.submit(one, c, CHECKS if a.all_checks else [p], a.jobs): (c, p, fid) for c, p, fid in fixed}
        for fu in cf.as_completed(futs):
            c, p, fid = futs[fu]
            _, res = fu.result()
            matrix[c] = {'finding': fid, 'property': p, 'results': res}
            caught = sorted(k for k, v in res.items() if not k.startswith('_') and v['rc'] == 1)
            own = res.get(p, {}).get('rc')
            print(f'{fid} {c} ({p}): own check rc={own}; caught by {caught} {res.get("_revert", "")}', flush=True)
            bad |= own != 1
    json.dump(matrix, open(path, 'w'), indent=1, sort_keys=True)
    return 1 if bad else 0


if __name__ == '__main__':
    raise SystemExit(main())
