#!/usr/bin/env python3
"""Confirm the sub-agent deliverables /tmp/mut/<ID>/_out/{a,b} in a scratch
worktree and keep confirmed ones as /verif/seeded/<ID>-<x>/ (patch.diff,
demo.py, meta.json).  usage: tools/import_seed.py C15 [C18 ...]"""
import json
import os
import shutil
import subprocess
import sys

ROOT = os.path.dirname(os.path.dirname(os.path.abspath(__file__)))
args = sys.argv[1:]
base, letters = '/tmp/mut', ('a', 'b')
if args and args[0] == '--round2':
    base, letters = '/tmp/mut2', ('c', 'd')
    args = args[1:]
elif args and args[0] == '--round3':
    base, letters = '/tmp/mut3', ('e', 'f', 'g')
    args = args[1:]
if args and args[0] == '--round4':
    base, letters = '/tmp/mut4', ('h', 'i')
    args = args[1:]
if args and args[0] == '--round10':
    base, letters = '/tmp/mut10', ('t', 'u')
    args = args[1:]
if args and args[0] == '--round9':
    base, letters = '/tmp/mut9', ('r', 's')
    args = args[1:]
if args and args[0] == '--round8':
    base, letters = '/tmp/mut8', ('p', 'q')
    args = args[1:]
if args and args[0] == '--round7':
    base, letters = '/tmp/mut7', ('n', 'o')
    args = args[1:]
if args and args[0] == '--round6':
    base, letters = '/tmp/mut6', ('l', 'm')
    args = args[1:]
if args and args[0] == '--round5':
    base, letters = '/tmp/mut5', ('j', 'k')
    args = args[1:]
for pid in args:
    for x in letters:
        src = f'{base}/{pid}/_out/{x}'
        if not os.path.isfile(os.path.join(src, 'patch.diff')):
            print(pid, x, 'missing')
            continue
        r = subprocess.run([os.path.join(ROOT, 'tools', 'confirm_seed.sh'), src], capture_output=True, text=True)
        try:
            conf = json.loads(r.stdout.strip().splitlines()[-1])
        except Exception:
            print(pid, x, 'confirm failed', r.stdout[-300:], r.stderr[-300:])
            continue
        if not conf.get('confirmed'):
            print(pid, x, 'NOT CONFIRMED', conf)
            continue
        dst = os.path.join(ROOT, 'seeded', f'{pid}-{x}')
        os.makedirs(dst, exist_ok=True)
        shutil.copy(os.path.join(src, 'patch.diff'), dst)
        shutil.copy(os.path.join(src, 'demo.py'), dst)
        try:
            meta = json.load(open(os.path.join(src, 'meta.json')))
        except Exception:
            meta = {}
        meta.setdefault('property', pid)
        meta['source'] = 'fresh sub-agent given only the property text and a scratch worktree'
        meta['confirmed_by'] = {
            'what_we_ran': 'tools/confirm_seed.sh in a scratch worktree of /repo HEAD: git apply; pinned pytest command; demo.py with and without the patch',
            'tests_with_patch': conf['tests'], 'demo_exit_with_patch': conf['demo_exit_with_patch'],
            'demo_exit_without_patch': conf['demo_exit_without'],
        }
        json.dump(meta, open(os.path.join(dst, 'meta.json'), 'w'), indent=1)
        print(pid, x, 'kept as', dst)
