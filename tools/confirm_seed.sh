#!/bin/bash
# Confirm a candidate seeded change in a scratch worktree (never in /repo):
#   tools/confirm_seed.sh <dir with patch.diff demo.py> -> prints a JSON line and exits 0 iff
#   patch applies, the 93 pinned tests pass with it, demo fails with it and passes without it.
d=$(readlink -f "$1")
wt=$(mktemp -d /tmp/confirm-wt.XXXXXX)
rmdir "$wt"
git -C /repo worktree add -q --detach "$wt" HEAD || exit 2
cleanup() { git -C /repo worktree remove --force "$wt" >/dev/null 2>&1; }
trap cleanup EXIT
cd "$wt" || exit 2
run() { PYTHONPATH="$wt" PYTHONDONTWRITEBYTECODE=1 timeout 600 /venv/bin/python -B "$@"; }
applies=no; tests=; demo_with=; demo_without=
# the demo runs from the same relative place it was written in (<worktree>/_out/<x>/demo.py):
# some demos locate the code under test relative to their own path
x=$(basename "$d"); mkdir -p "$wt/_out/$x"; cp "$d/demo.py" "$wt/_out/$x/demo.py"
demo="$wt/_out/$x/demo.py"
if git apply --check "$d/patch.diff" 2>/dev/null; then
  applies=yes
  run "$demo" >/dev/null 2>&1; demo_without=$?
  git apply "$d/patch.diff"
  tests=$(run -m pytest -q -p no:cacheprovider --timeout=900 2>&1 | tail -1)
  run "$demo" > "$wt/.demo.out" 2>&1; demo_with=$?
  first=$(head -c 300 "$wt/.demo.out" | tr '\n' ' ')
fi
ok=1
[[ "$applies" == yes && "$tests" == *"93 passed"* && "$demo_with" != 0 && "$demo_without" == 0 ]] && ok=0
printf '{"dir": "%s", "applies": "%s", "tests": "%s", "demo_exit_with_patch": "%s", "demo_exit_without": "%s", "confirmed": %s}\n' \
   "$d" "$applies" "$tests" "$demo_with" "$demo_without" $([ $ok = 0 ] && echo true || echo false)
exit $ok
