#!/usr/bin/env python3
"""False-alarm test: run every quick check against each behaviour-preserving refactoring
(refactorings/<id>/patch.diff) in a scratch worktree.  Any exit status other than 0 is an
alarm to investigate.  usage: tools/refactor_matrix.py [--par N] [--jobs N] [ids...]"""
import argparse
import concurrent.futures as cf
import json
import os
import re
import shutil
import subprocess
import tempfile

ROOT = os.path.dirname(os.path.dirname(os.path.abspath(__file__)))
R = os.path.join(ROOT, 'refactorings')
CHECKS = sorted(f[:-3] for f in os.listdir(os.path.join(ROOT, 'pmon', 'checks')) if re.fullmatch(r'C\d+\.py', f))


def one(rid, jobs, tier):
    wt = tempfile.mkdtemp(prefix=f'refwt-{rid}-', dir='/tmp')
    os.rmdir(wt)
    out = tempfile.mkdtemp(prefix=f'refout-{rid}-', dir='/tmp')
    res = {}
    try:
        subprocess.run(['git', '-C', '/repo', 'worktree', 'add', '-q', '--detach', wt, 'HEAD'], check=True)
        a = subprocess.run(['git', '-C', wt, 'apply', os.path.join(R, rid, 'patch.diff')], capture_output=True, text=True)
        if a.returncode:
            return rid, {'_apply': a.stderr[-300:]}
        t = subprocess.run(['/venv/bin/python', '-B', '-m', 'pytest', '-q', '-p', 'no:cacheprovider', '--timeout=900'],
                           cwd=wt, env=dict(os.environ, PYTHONPATH=wt), capture_output=True, text=True)
        res['_tests'] = t.stdout.strip().splitlines()[-1] if t.stdout.strip() else 'no output'
        env = dict(os.environ, PMON_REPO=wt, PMON_OUT=out)

        def run(c):
            r = subprocess.run([os.path.join(ROOT, 'check'), c, '--tier', tier, '--no-evidence'],
                               capture_output=True, text=True, env=env, cwd=ROOT)
            return c, r.returncode, r.stdout[-1500:]
        with cf.ThreadPoolExecutor(jobs) as ex:
            for c, rc, tail in ex.map(run, CHECKS):
                res[c] = {'rc': rc, 'tail': tail if rc else ''}
    finally:
        subprocess.run(['git', '-C', '/repo', 'worktree', 'remove', '--force', wt], capture_output=True)
        shutil.rmtree(wt, ignore_errors=True)
        shutil.rmtree(out, ignore_errors=True)
    return rid, res


def main():
    ap = argparse.ArgumentParser()
    ap.add_argument('ids', nargs='*')
    ap.add_argument('--par', type=int, default=2)
    ap.add_argument('--jobs', type=int, default=4)
    ap.add_argument('--tier', default='quick')
    a = ap.parse_args()
    ids = a.ids or sorted(d for d in os.listdir(R) if os.path.isfile(os.path.join(R, d, 'patch.diff')))
    mp = os.path.join(R, 'MATRIX.json')
    try:
        matrix = json.load(open(mp))
    except Exception:
        matrix = {}
    with cf.ThreadPoolExecutor(a.par) as ex:
        for f in cf.as_completed([ex.submit(one, rid, a.jobs, a.tier) for rid in ids]):
            rid, res = f.result()
            matrix[rid] = res
            alarms = sorted(c for c, r in res.items() if not c.startswith('_') and r['rc'] != 0)
            print(f"{rid}: tests={res.get('_tests', res.get('_apply'))!r} alarms={alarms}", flush=True)
            for c in alarms:
                print('   ', c, res[c]['tail'][-700:].replace('\n', '\n      '))
            json.dump(matrix, open(mp, 'w'), indent=1, sort_keys=True)


if __name__ == '__main__':
    main()
