#!/usr/bin/env python3
"""Render seeded/MATRIX.json + seeded/*/meta.json as seeded/MATRIX.md"""
import json
import os

ROOT = os.path.dirname(os.path.dirname(os.path.abspath(__file__)))
S = os.path.join(ROOT, 'seeded')
m = json.load(open(os.path.join(S, 'MATRIX.json')))
rows = ['| seeded change | property | what it does | needs to manifest | own check (quick) | all checks that fire (quick) |',
        '|---|---|---|---|---|---|']
miss = []
for sid in sorted(m):
    meta = json.load(open(os.path.join(S, sid, 'meta.json')))
    q = m[sid].get('quick', {})
    fired = sorted(c for c, r in q.items() if r.get('rc') == 1)
    own = q.get(meta['property'], {}).get('rc')
    if own != 1:
        miss.append(sid)
    clauses = ', '.join(q.get(meta['property'], {}).get('clauses', [])[:3])

    def cell(x):
        return ' '.join(str(x).replace('|', '\\|').split())[:260]
    rows.append(f"| {sid} | {meta['property']} | {cell(meta.get('summary', ''))} | {cell(meta.get('needs_to_manifest', ''))} | "
                f"{'fires: ' + clauses if own == 1 else 'MISSED' if own == 0 else 'inconclusive'} | {', '.join(fired)} |")
open(os.path.join(S, 'MATRIX.md'), 'w').write(
    '# Seeded changes x checks (quick tier)\n\n'
    f'{len(m)} seeded changes, {len(m) - len(miss)} caught by the check of their own property'
    + (f'; missed: {", ".join(miss)}' if miss else '') + '.\n\n' + '\n'.join(rows) + '\n')
print(len(m), 'rows; missed', miss)
