#!/usr/bin/env python3
"""Which checks catch which seeded change.  Each change is applied in its own scratch
worktree (never /repo), every quick check runs against it (PMON_REPO/PMON_OUT), the
worktree and its output are removed afterwards.
usage: tools/seeded_matrix.py [--par N] [--tier quick] [--only-own] [ids...]
Writes seeded/MATRIX.json and updates 'detected_by' in each seeded/<id>/meta.json."""
import argparse
import concurrent.futures as cf
import json
import os
import re
import shutil
import subprocess
import sys
import tempfile

ROOT = os.path.dirname(os.path.dirname(os.path.abspath(__file__)))
SEEDED = os.path.join(ROOT, 'seeded')
CHECKS = sorted(f[:-3] for f in os.listdir(os.path.join(ROOT, 'pmon', 'checks')) if re.fullmatch(r'C\d+\.py', f))


def one(seed_id, tier, checks, jobs):
    wt = tempfile.mkdtemp(prefix=f'seedwt-{seed_id}-', dir='/tmp')
    os.rmdir(wt)
    out = tempfile.mkdtemp(prefix=f'seedout-{seed_id}-', dir='/tmp')
    res = {}
    try:
        subprocess.run(['git', '-C', '/repo', 'worktree', 'add', '-q', '--detach', wt, 'HEAD'], check=True)
        subprocess.run(['git', '-C', wt, 'apply', os.path.join(SEEDED, seed_id, 'patch.diff')], check=True)
        env = dict(os.environ, PMON_REPO=wt, PMON_OUT=out)

        def run(c):
            r = subprocess.run([os.path.join(ROOT, 'check'), c, '--tier', tier, '--no-evidence'],
                               capture_output=True, text=True, env=env, cwd=ROOT)
            props = sorted(set(re.findall(r'^VIOLATION property=(\S+)', r.stdout, flags=re.M)))
            clauses = sorted(set(re.findall(r'^  clause=(\S+)', r.stdout, flags=re.M)))[:5]
            also = sorted(set(re.findall(r'^ALSO-OBSERVED: law of property=(\S+)', r.stdout, flags=re.M)))
            return c, r.returncode, props, clauses, also
        with cf.ThreadPoolExecutor(jobs) as ex:
            for c, rc, props, clauses, also in ex.map(run, checks):
                res[c] = {'rc': rc, 'clauses': clauses, 'also_observed': also}
    finally:
        subprocess.run(['git', '-C', '/repo', 'worktree', 'remove', '--force', wt], capture_output=True)
        shutil.rmtree(wt, ignore_errors=True)
        shutil.rmtree(out, ignore_errors=True)
    return seed_id, res


def main():
    ap = argparse.ArgumentParser()
    ap.add_argument('ids', nargs='*')
    ap.add_argument('--par', type=int, default=3)
    ap.add_argument('--jobs', type=int, default=3)
    ap.add_argument('--tier', default='quick')
    ap.add_argument('--only-own', action='store_true', help="run only the check of the seed's own property")
    a = ap.parse_args()
    ids = a.ids or sorted(d for d in os.listdir(SEEDED) if os.path.isfile(os.path.join(SEEDED, d, 'patch.diff')))
    mpath = os.path.join(SEEDED, 'MATRIX.json')
    try:
        matrix = json.load(open(mpath))
    except Exception:
        matrix = {}
    with cf.ThreadPoolExecutor(a.par) as ex:
        futs = []
        for sid in ids:
            meta = json.load(open(os.path.join(SEEDED, sid, 'meta.json')))
            checks = [meta['property']] if a.only_own else CHECKS
            futs.append(ex.submit(one, sid, a.tier, checks, a.jobs))
        for f in cf.as_completed(futs):
            sid, res = f.result()
            meta_p = os.path.join(SEEDED, sid, 'meta.json')
            meta = json.load(open(meta_p))
            caught = sorted(c for c, r in res.items() if r['rc'] == 1)
            incon = sorted(c for c, r in res.items() if r['rc'] not in (0, 1))
            entry = matrix.setdefault(sid, {'property': meta['property']})
            entry.setdefault(a.tier, {}).update(res)
            allres = entry[a.tier]
            meta['detected_by'] = {a.tier: sorted(c for c, r in allres.items() if r['rc'] == 1)}
            meta['own_property_check_fires'] = allres.get(meta['property'], {}).get('rc') == 1
            json.dump(meta, open(meta_p, 'w'), indent=1)
            own = res.get(meta['property'], {}).get('rc')
            print(f"{sid} ({meta['property']}): own check rc={own}; caught by {caught}"
                  + (f"; inconclusive {incon}" if incon else ''), flush=True)
            json.dump(matrix, open(mpath, 'w'), indent=1, sort_keys=True)


if __name__ == '__main__':
    main()
