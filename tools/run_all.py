#!/usr/bin/env python3
"""Run several checks in parallel and print one line per check.
usage: tools/run_all.py [--tier quick|thorough] [--jobs N] [--seed S] [--no-evidence] [IDs...]
Exit status 0 iff every check exited 0."""
import argparse
import concurrent.futures as cf
import os
import re
import subprocess
import sys
import time

ROOT = os.path.dirname(os.path.dirname(os.path.abspath(__file__)))


def run(cid, tier, seed, noev):
    cmd = [os.path.join(ROOT, 'check'), cid, '--tier', tier, '--seed', str(seed)]
    if noev:
        cmd.append('--no-evidence')
    t0 = time.time()
    r = subprocess.run(cmd, capture_output=True, text=True, cwd=ROOT)
    return cid, r.returncode, time.time() - t0, r.stdout


def main():
    ap = argparse.ArgumentParser()
    ap.add_argument('ids', nargs='*')
    ap.add_argument('--tier', default='quick')
    ap.add_argument('--jobs', type=int, default=6)
    ap.add_argument('--seed', type=int, default=0)
    ap.add_argument('--no-evidence', action='store_true')
    ap.add_argument('--verbose', action='store_true')
    a = ap.parse_args()
    ids = a.ids or sorted(f[:-3] for f in os.listdir(os.path.join(ROOT, 'pmon', 'checks'))
                          if re.fullmatch(r'C\d+\.py', f))
    bad = 0
    with cf.ThreadPoolExecutor(a.jobs) as ex:
        futs = [ex.submit(run, c, a.tier, a.seed, a.no_evidence) for c in ids]
        for f in cf.as_completed(futs):
            cid, rc, dt, out = f.result()
            props = sorted(set(re.findall(r'^VIOLATION property=(\S+)', out, flags=re.M)))
            clauses = sorted(set(re.findall(r'^  clause=(\S+)', out, flags=re.M)))[:4]
            last = out.strip().splitlines()[-1] if out.strip() else ''
            print(f'{cid} rc={rc} {dt:6.1f}s {"violations of " + ",".join(props) + " " + str(clauses) if props else last[:110]}',
                  flush=True)
            if a.verbose and rc:
                print(out[:3000])
            bad |= rc != 0
    return 1 if bad else 0


if __name__ == '__main__':
    sys.exit(main())
