#!/bin/bash
# Offline bootstrap: icontract (+ its pure-python deps) beside the repo's interpreter.
set -e
cd "$(dirname "$0")"
if [ ! -d .deps/icontract ]; then
  rm -rf .deps
  PIP_NO_INDEX=1 /venv/bin/pip install -q --no-index --find-links /opt/veriftools/wheels \
      --target .deps icontract >/dev/null 2>&1 || { echo "setup: icontract install failed" >&2; exit 1; }
fi
mkdir -p out evidence
PYTHONPATH=/repo:$PWD:$PWD/.deps /venv/bin/python -B -c "import icontract, penman, pmon; assert penman.__file__.startswith('/repo/'), penman.__file__; print('setup ok: icontract', icontract.__version__, 'penman', penman.__file__)"
